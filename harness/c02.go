package main

// C02 / C11 / C20: the loader.  The harness owns an in-memory store of files (documents and
// single-element files in nested directories and on an http host), generates reference graphs
// over it (chains, diamonds, cycles, dangling and wrong-kind targets, extension areas, every
// relative spelling), loads the root through each entry point with a logging ReadFromURIFunc,
// and lists every reference position reachable from the loaded document with the id of the
// object it was resolved to.  The same store goes to the Coq model and specification.

import (
	"encoding/json"
	"fmt"
	"net/url"
	"os"
	"os/exec"
	"path"
	"path/filepath"
	"runtime/debug"
	"sort"
	"strconv"
	"strings"
	"sync"
	"time"

	"github.com/getkin/kin-openapi/openapi3"
)

type LFile struct {
	URI    string         `json:"uri"`
	Doc    map[string]any `json:"doc,omitempty"`    // a whole document
	Single map[string]any `json:"single,omitempty"` // one element (schema, response, ...)
}
type LCase struct {
	Allow   bool    `json:"allow_external"`
	Entry   int     `json:"entry"` // 0 LoadFromFile/LoadFromURI, 1 LoadFromData, 2 LoadFromDataWithPath
	Root    string  `json:"root"`
	Files   []LFile `json:"files"`
	Bytes   string  `json:"bytes,omitempty"`         // C20 only: raw root bytes (mutated); the store is then not modelled
	NoModel bool    `json:"outside_model,omitempty"` // path-item references: judged against the specification only
}
type LObs struct {
	Out   int               `json:"outcome"` // 0 loaded, 1 error, 2 panic, 3 timeout
	Err   string            `json:"error,omitempty"`
	Obs   map[string]*int64 `json:"resolved"`
	Reads []string          `json:"reads"`
	After string            `json:"after,omitempty"` // C20: panic / timeout of Validate, MarshalJSON, InternalizeRefs on the loaded document
}

// ---- node construction (the harness's own grammar of reference-capable positions) ----
type lnode struct {
	ref  string
	id   int64
	kids []lkid
}
type lkid struct {
	cls, key, kind string
	n              *lnode
}

func idOfDesc(m map[string]any) int64 {
	d, _ := m["description"].(string)
	if strings.HasPrefix(d, "id") {
		n, _ := strconv.ParseInt(d[2:], 10, 64)
		return n
	}
	return 0
}

func asObj(v any) map[string]any { m, _ := v.(map[string]any); return m }

func lRefOr(v any, f func(m map[string]any) *lnode) *lnode {
	m := asObj(v)
	if m == nil {
		return nil
	}
	if r, ok := m["$ref"].(string); ok {
		return &lnode{ref: r}
	}
	return f(m)
}

func (n *lnode) add(cls, key, kind string, c *lnode) {
	if c != nil {
		n.kids = append(n.kids, lkid{cls, key, kind, c})
	}
}

func lSchema(v any) *lnode {
	return lRefOr(v, func(m map[string]any) *lnode {
		n := &lnode{id: idOfDesc(m)}
		n.add("items", "", "KSchema", lSchema(m["items"]))
		for _, k := range sortedKeys(asObj(m["properties"])) {
			n.add("properties", k, "KSchema", lSchema(asObj(m["properties"])[k]))
		}
		n.add("additionalProperties", "", "KSchema", lSchema(m["additionalProperties"]))
		n.add("not", "", "KSchema", lSchema(m["not"]))
		for _, f := range []string{"allOf", "anyOf", "oneOf"} {
			if l, ok := m[f].([]any); ok {
				for i, e := range l {
					n.add(f, fmt.Sprint(i), "KSchema", lSchema(e))
				}
			}
		}
		return n
	})
}
func lLeaf(v any) *lnode {
	return lRefOr(v, func(m map[string]any) *lnode { return &lnode{id: idOfDesc(m)} })
}
func lMedia(v any, kind string) *lnode {
	m := asObj(v)
	if m == nil {
		return nil
	}
	n := &lnode{}
	for _, k := range sortedKeys(asObj(m["examples"])) {
		n.add("examples", k, "KExample", lLeaf(asObj(m["examples"])[k]))
	}
	n.add("schema", "", "KSchema", lSchema(m["schema"]))
	return n
}
func lParamLike(v any) *lnode {
	return lRefOr(v, func(m map[string]any) *lnode {
		n := &lnode{id: idOfDesc(m)}
		for _, k := range sortedKeys(asObj(m["content"])) {
			n.add("content", k, "KMediaP", lMedia(asObj(m["content"])[k], "KMediaP"))
		}
		n.add("schema", "", "KSchema", lSchema(m["schema"]))
		for _, k := range sortedKeys(asObj(m["examples"])) {
			n.add("examples", k, "KExample", lLeaf(asObj(m["examples"])[k]))
		}
		return n
	})
}
func lRequestBody(v any) *lnode {
	return lRefOr(v, func(m map[string]any) *lnode {
		n := &lnode{id: idOfDesc(m)}
		for _, k := range sortedKeys(asObj(m["content"])) {
			n.add("content", k, "KMedia", lMedia(asObj(m["content"])[k], "KMedia"))
		}
		return n
	})
}
func lResponse(v any) *lnode {
	return lRefOr(v, func(m map[string]any) *lnode {
		n := &lnode{id: idOfDesc(m)}
		for _, k := range sortedKeys(asObj(m["headers"])) {
			n.add("headers", k, "KHeader", lParamLike(asObj(m["headers"])[k]))
		}
		for _, k := range sortedKeys(asObj(m["content"])) {
			n.add("content", k, "KMedia", lMedia(asObj(m["content"])[k], "KMedia"))
		}
		for _, k := range sortedKeys(asObj(m["links"])) {
			n.add("links", k, "KLink", lLeaf(asObj(m["links"])[k]))
		}
		return n
	})
}

var lMethods = []string{"delete", "get", "patch", "post", "put"}

func lPathItem(v any) *lnode {
	m := asObj(v)
	if r, ok := m["$ref"].(string); ok {
		return &lnode{ref: r}
	}
	n := &lnode{id: idOfDesc(m)}
	if l, ok := m["parameters"].([]any); ok {
		for i, e := range l {
			n.add("parameters", fmt.Sprint(i), "KParameter", lParamLike(e))
		}
	}
	for _, meth := range lMethods {
		op := asObj(m[meth])
		if op == nil {
			continue
		}
		o := &lnode{}
		if l, ok := op["parameters"].([]any); ok {
			for i, e := range l {
				o.add("parameters", fmt.Sprint(i), "KParameter", lParamLike(e))
			}
		}
		o.add("requestBody", "", "KRequestBody", lRequestBody(op["requestBody"]))
		for _, code := range sortedKeys(asObj(op["responses"])) {
			o.add("responses", code, "KResponse", lResponse(asObj(op["responses"])[code]))
		}
		n.add("operations", strings.ToUpper(meth), "KOperation", o)
	}
	return n
}

var lColls = []struct {
	coll, kind string
	trav       bool
	f          func(v any) *lnode
}{
	{"headers", "KHeader", true, lParamLike}, {"parameters", "KParameter", true, lParamLike}, {"requestBodies", "KRequestBody", true, lRequestBody},
	{"responses", "KResponse", true, lResponse}, {"schemas", "KSchema", true, lSchema}, {"securitySchemes", "KSecScheme", true, lLeaf},
	{"examples", "KExample", true, lLeaf}, {"links", "KLink", false, lLeaf},
}

func (n *lnode) Coq() string {
	if n.ref != "" {
		return "(NRef " + coqStr(n.ref) + ")"
	}
	var ks []string
	for _, k := range n.kids {
		ks = append(ks, fmt.Sprintf("(%s, %s, %s, %s)", coqStr(k.cls), coqStr(k.key), k.kind, k.n.Coq()))
	}
	return fmt.Sprintf("(NObj %d%%N %s)", n.id, coqList(ks))
}

func singleNode(m map[string]any) *lnode {
	// a single-element file is decoded as whatever kind the referring position expects; the
	// harness gives the union of the reference-capable positions (a file only uses its own kind's)
	switch m["x-kind"] {
	case "response":
		return lResponse(m)
	case "parameter", "header":
		return lParamLike(m)
	case "requestBody":
		return lRequestBody(m)
	case "schema":
		return lSchema(m)
	case "example", "securityScheme", "link":
		return lLeaf(m)
	}
	return lSchema(m)
}

func (f *LFile) Coq() string {
	if f.Doc == nil {
		k := map[string]string{"response": "KResponse", "parameter": "KParameter", "header": "KHeader", "requestBody": "KRequestBody", "schema": "KSchema",
			"securityScheme": "KSecScheme", "example": "KExample", "link": "KLink"}[fmt.Sprint(f.Single["x-kind"])]
		if k == "" {
			k = "KSchema"
		}
		return fmt.Sprintf("mkFile [] [] (Some (%s, %s))", k, singleNode(f.Single).Coq())
	}
	var cells, exts []string
	comps := asObj(f.Doc["components"])
	for _, c := range lColls {
		m := asObj(comps[c.coll])
		for _, name := range sortedKeys(m) {
			if n := c.f(m[name]); n != nil {
				cells = append(cells, fmt.Sprintf("(%s, %s, %s, %s)", coqStrList([]string{"components", c.coll, name}), c.kind, coqBool(c.trav), n.Coq()))
			}
		}
	}
	paths := asObj(f.Doc["paths"])
	for _, p := range sortedKeys(paths) {
		cells = append(cells, fmt.Sprintf("(%s, KPathItem, true, %s)", coqStrList([]string{"paths", p}), lPathItem(paths[p]).Coq()))
	}
	for _, k := range sortedKeys(f.Doc) {
		if strings.HasPrefix(k, "x-") {
			m := asObj(f.Doc[k])
			for _, name := range sortedKeys(m) {
				if mm := asObj(m[name]); mm != nil {
					nd := singleNode(mm)
					if k == "x-path-items" {
						nd = lPathItem(mm)
					}
					exts = append(exts, fmt.Sprintf("(%s, %s)", coqStrList([]string{k, name}), nd.Coq()))
				}
			}
		}
	}
	return fmt.Sprintf("mkFile %s %s None", coqList(cells), coqList(exts))
}

// ---- path arithmetic: the loader's resolvePath, on the real url / path functions ----
func lResolve(base string, ref string) string {
	pu, err := url.Parse(ref)
	if err != nil {
		return ref
	}
	isFile := pu.Path != "" && pu.Host == "" && (pu.Scheme == "" || pu.Scheme == "file")
	if isFile && !filepath.IsAbs(pu.Path) && base != "" {
		bu, err := url.Parse(base)
		if err != nil {
			return ref
		}
		nb := *bu
		nb.Path = path.Join(path.Dir(nb.Path), pu.Path)
		nb.Fragment = ""
		return nb.String()
	}
	if isFile && filepath.IsAbs(pu.Path) && base != "" {
		// an absolute path found in a document that has a host designates a resource of that host
		if bu, err := url.Parse(base); err == nil && bu.Host != "" {
			nb := *bu
			nb.Path = pu.Path
			nb.Fragment = ""
			return nb.String()
		}
	}
	pu.Fragment = ""
	return pu.String()
}

func allRefs(v any, out map[string]bool) {
	switch x := v.(type) {
	case map[string]any:
		if r, ok := x["$ref"].(string); ok {
			out[r] = true
		}
		for _, e := range x {
			allRefs(e, out)
		}
	case []any:
		for _, e := range x {
			allRefs(e, out)
		}
	}
}

// ---- observation of the loaded document ----
type lobs struct {
	out map[string]*int64
	all bool // also list inline objects (C16 compares positions whether or not they are references)
}

func idOfStr(d string) *int64 {
	var n int64
	if strings.HasPrefix(d, "id") {
		n, _ = strconv.ParseInt(d[2:], 10, 64)
	}
	return &n
}
func (o *lobs) schema(prefix string, r *openapi3.SchemaRef, hops int) {
	if r == nil {
		return
	}
	if r.Ref != "" {
		if r.Value == nil {
			o.out[prefix] = nil
			return
		}
		o.out[prefix] = idOfStr(r.Value.Description)
		if hops == 0 {
			return
		}
		prefix, hops = prefix+"\x1f->", hops-1
	} else if o.all && r.Value != nil {
		o.out[prefix] = idOfStr(r.Value.Description)
	}
	v := r.Value
	if v == nil {
		return
	}
	o.schema(prefix+"\x1fitems:", v.Items, hops)
	for k, c := range v.Properties {
		o.schema(prefix+"\x1fproperties:"+k, c, hops)
	}
	o.schema(prefix+"\x1fadditionalProperties:", v.AdditionalProperties.Schema, hops)
	o.schema(prefix+"\x1fnot:", v.Not, hops)
	for i, c := range v.AllOf {
		o.schema(fmt.Sprintf("%s\x1fallOf:%d", prefix, i), c, hops)
	}
	for i, c := range v.AnyOf {
		o.schema(fmt.Sprintf("%s\x1fanyOf:%d", prefix, i), c, hops)
	}
	for i, c := range v.OneOf {
		o.schema(fmt.Sprintf("%s\x1foneOf:%d", prefix, i), c, hops)
	}
}
func (o *lobs) example(prefix string, r *openapi3.ExampleRef) {
	if r != nil && r.Ref == "" && o.all && r.Value != nil {
		o.out[prefix] = idOfStr(r.Value.Description)
	}
	if r == nil || r.Ref == "" {
		return
	}
	if r.Value == nil {
		o.out[prefix] = nil
		return
	}
	o.out[prefix] = idOfStr(r.Value.Description)
}
func (o *lobs) link(prefix string, r *openapi3.LinkRef) {
	if r != nil && r.Ref == "" && o.all && r.Value != nil {
		o.out[prefix] = idOfStr(r.Value.Description)
	}
	if r == nil || r.Ref == "" {
		return
	}
	if r.Value == nil {
		o.out[prefix] = nil
		return
	}
	o.out[prefix] = idOfStr(r.Value.Description)
}
func (o *lobs) scheme(prefix string, r *openapi3.SecuritySchemeRef) {
	if r != nil && r.Ref == "" && o.all && r.Value != nil {
		o.out[prefix] = idOfStr(r.Value.Description)
	}
	if r == nil || r.Ref == "" {
		return
	}
	if r.Value == nil {
		o.out[prefix] = nil
		return
	}
	o.out[prefix] = idOfStr(r.Value.Description)
}
func (o *lobs) media(prefix string, content openapi3.Content, hops int) {
	for mt, m := range content {
		if m == nil {
			continue
		}
		for k, e := range m.Examples {
			o.example(prefix+"\x1fcontent:"+mt+"\x1fexamples:"+k, e)
		}
		o.schema(prefix+"\x1fcontent:"+mt+"\x1fschema:", m.Schema, hops)
	}
}
func (o *lobs) paramLike(prefix string, ref string, v *openapi3.Parameter, hops int) {
	if ref != "" {
		if v == nil {
			o.out[prefix] = nil
			return
		}
		o.out[prefix] = idOfStr(v.Description)
		if hops == 0 {
			return
		}
		prefix, hops = prefix+"\x1f->", hops-1
	} else if o.all && v != nil {
		o.out[prefix] = idOfStr(v.Description)
	}
	if v == nil {
		return
	}
	o.media(prefix, v.Content, hops)
	o.schema(prefix+"\x1fschema:", v.Schema, hops)
	for k, e := range v.Examples {
		o.example(prefix+"\x1fexamples:"+k, e)
	}
}
func (o *lobs) parameter(prefix string, r *openapi3.ParameterRef, hops int) {
	if r != nil {
		o.paramLike(prefix, r.Ref, r.Value, hops)
	}
}
func (o *lobs) header(prefix string, r *openapi3.HeaderRef, hops int) {
	if r == nil {
		return
	}
	var p *openapi3.Parameter
	if r.Value != nil {
		p = &r.Value.Parameter
	}
	o.paramLike(prefix, r.Ref, p, hops)
}
func (o *lobs) requestBody(prefix string, r *openapi3.RequestBodyRef, hops int) {
	if r == nil {
		return
	}
	if r.Ref != "" {
		if r.Value == nil {
			o.out[prefix] = nil
			return
		}
		o.out[prefix] = idOfStr(r.Value.Description)
		if hops == 0 {
			return
		}
		prefix, hops = prefix+"\x1f->", hops-1
	} else if o.all && r.Value != nil {
		o.out[prefix] = idOfStr(r.Value.Description)
	}
	if r.Value != nil {
		o.media(prefix, r.Value.Content, hops)
	}
}
func (o *lobs) response(prefix string, r *openapi3.ResponseRef, hops int) {
	if r == nil {
		return
	}
	if r.Ref != "" {
		if r.Value == nil {
			o.out[prefix] = nil
			return
		}
		d := ""
		if r.Value.Description != nil {
			d = *r.Value.Description
		}
		o.out[prefix] = idOfStr(d)
		if hops == 0 {
			return
		}
		prefix, hops = prefix+"\x1f->", hops-1
	} else if o.all && r.Value != nil && r.Value.Description != nil {
		o.out[prefix] = idOfStr(*r.Value.Description)
	}
	v := r.Value
	if v == nil {
		return
	}
	for k, h := range v.Headers {
		o.header(prefix+"\x1fheaders:"+k, h, hops)
	}
	o.media(prefix, v.Content, hops)
	for k, l := range v.Links {
		o.link(prefix+"\x1flinks:"+k, l)
	}
}

func observeDoc(doc *openapi3.T) map[string]*int64 { return observeDocMode(doc, false) }

// every object position (references followed, hop markers removed): position -> id
func observeAll(doc *openapi3.T) map[string]*int64 {
	out := map[string]*int64{}
	for k, v := range observeDocMode(doc, true) {
		out[strings.ReplaceAll(k, "\x1f->", "")] = v
	}
	return out
}

func observeDocMode(doc *openapi3.T, all bool) map[string]*int64 {
	o := &lobs{out: map[string]*int64{}, all: all}
	const hops = 2
	if c := doc.Components; c != nil {
		for k, v := range c.Headers {
			o.header("components\x1fheaders\x1f"+k, v, hops)
		}
		for k, v := range c.Parameters {
			o.parameter("components\x1fparameters\x1f"+k, v, hops)
		}
		for k, v := range c.RequestBodies {
			o.requestBody("components\x1frequestBodies\x1f"+k, v, hops)
		}
		for k, v := range c.Responses {
			o.response("components\x1fresponses\x1f"+k, v, hops)
		}
		for k, v := range c.Schemas {
			o.schema("components\x1fschemas\x1f"+k, v, hops)
		}
		for k, v := range c.SecuritySchemes {
			o.scheme("components\x1fsecuritySchemes\x1f"+k, v)
		}
		for k, v := range c.Examples {
			o.example("components\x1fexamples\x1f"+k, v)
		}
		for k, v := range c.Links {
			o.link("components\x1flinks\x1f"+k, v)
		}
	}
	if doc.Paths != nil {
		for p, item := range doc.Paths.Map() {
			if item == nil {
				continue
			}
			pre := "paths\x1f" + p
			ihops := hops
			if item.Ref != "" {
				o.out[pre] = idOfStr(item.Description)
				pre, ihops = pre+"\x1f->", hops-1
			}
			hops := ihops
			for i, prm := range item.Parameters {
				o.parameter(fmt.Sprintf("%s\x1fparameters:%d", pre, i), prm, hops)
			}
			for meth, op := range item.Operations() {
				opre := pre + "\x1foperations:" + meth
				for i, prm := range op.Parameters {
					o.parameter(fmt.Sprintf("%s\x1fparameters:%d", opre, i), prm, hops)
				}
				o.requestBody(opre+"\x1frequestBody:", op.RequestBody, hops)
				if op.Responses != nil {
					for code, r := range op.Responses.Map() {
						o.response(opre+"\x1fresponses:"+code, r, hops)
					}
				}
			}
		}
	}
	return o.out
}

func (c *LCase) fileBytes(uri string) ([]byte, bool) {
	for i := range c.Files {
		if c.Files[i].URI == uri {
			var v any = c.Files[i].Doc
			if c.Files[i].Doc == nil {
				v = c.Files[i].Single
			}
			b, _ := json.Marshal(v)
			return b, true
		}
	}
	return nil, false
}

func runLoad(c *LCase, after bool) LObs {
	o := LObs{Obs: map[string]*int64{}}
	done := make(chan struct{})
	var reads []string
	go func() {
		defer close(done)
		defer func() {
			if r := recover(); r != nil {
				o.Out, o.Err = 2, fmt.Sprint(r)
			}
		}()
		loader := openapi3.NewLoader()
		loader.IsExternalRefsAllowed = c.Allow
		loader.ReadFromURIFunc = func(_ *openapi3.Loader, u *url.URL) ([]byte, error) {
			reads = append(reads, u.String())
			if b, ok := c.fileBytes(u.String()); ok {
				return b, nil
			}
			return nil, fmt.Errorf("no such file: %s", u.String())
		}
		var doc *openapi3.T
		var err error
		rootBytes, _ := c.fileBytes(c.Root)
		if c.Bytes != "" {
			rootBytes = []byte(c.Bytes)
		}
		switch c.Entry {
		case 0:
			if strings.HasPrefix(c.Root, "http") {
				u, _ := url.Parse(c.Root)
				doc, err = loader.LoadFromURI(u)
			} else {
				doc, err = loader.LoadFromFile(c.Root)
			}
		case 1:
			doc, err = loader.LoadFromData(rootBytes)
		default:
			u, _ := url.Parse(c.Root)
			doc, err = loader.LoadFromDataWithPath(rootBytes, u)
		}
		if err != nil {
			o.Out, o.Err = 1, err.Error()
			if len(o.Err) > 300 {
				o.Err = o.Err[:300]
			}
			return
		}
		o.Obs = observeDoc(doc)
		_ = after
	}()
	select {
	case <-done:
	case <-time.After(10 * time.Second):
		o.Out, o.Err = 3, "timeout"
	}
	o.Reads = reads
	return o
}

func lCoq(c *LCase, o *LObs) string {
	var files, rp, obs []string
	uris := []string{""}
	refs := map[string]bool{}
	for i := range c.Files {
		f := &c.Files[i]
		files = append(files, fmt.Sprintf("(%s, %s)", coqStr(f.URI), f.Coq()))
		uris = append(uris, f.URI)
		if f.Doc != nil {
			allRefs(f.Doc, refs)
		} else {
			allRefs(f.Single, refs)
		}
	}
	if c.Entry == 1 {
		// an in-memory root has no location: it is the file named ""
		for i := range c.Files {
			if c.Files[i].URI == c.Root {
				files = append(files, fmt.Sprintf("(\"\", %s)", c.Files[i].Coq()))
			}
		}
	}
	seen := map[string]bool{}
	for _, u := range uris {
		for _, r := range sortedKeys(refs) {
			part := r
			if i := strings.IndexByte(r, '#'); i >= 0 {
				part = r[:i]
			}
			if part == "" || seen[u+"\x00"+part] {
				continue
			}
			seen[u+"\x00"+part] = true
			rp = append(rp, fmt.Sprintf("(%s, %s, %s)", coqStr(u), coqStr(part), coqStr(lResolve(u, part))))
		}
	}
	for _, k := range sortedKeys(o.Obs) {
		v := "None"
		if o.Obs[k] != nil {
			v = fmt.Sprintf("(Some %d%%N)", *o.Obs[k])
		}
		obs = append(obs, fmt.Sprintf("(%s, %s)", coqStrList(strings.Split(k, "\x1f")), v))
	}
	root := c.Root
	if c.Entry == 1 {
		root = ""
	}
	entry := c.Entry
	if c.NoModel {
		entry += 10
	}
	return fmt.Sprintf("mkLC %s %d%%N %s %s %s %d%%N %s %s", coqBool(c.Allow), entry, coqStr(root), coqList(files), coqList(rp),
		o.Out, coqList(obs), coqStrList(o.Reads))
}

// ---- generation ----
type lgen struct {
	r      *Rng
	nextID int64
	faulty bool // this store may contain dangling, wrong-kind and extension-area references
	files  []*LFile
	// components available as reference targets: kind -> (file index, name)
	targets map[string][][2]string // kind -> [uri, pointer-or-empty-for-single]
}

func (g *lgen) id() string { g.nextID++; return fmt.Sprintf("id%d", g.nextID) }

var lKindColl = map[string]string{"schema": "schemas", "parameter": "parameters", "header": "headers", "requestBody": "requestBodies",
	"response": "responses", "example": "examples", "securityScheme": "securitySchemes", "link": "links"}

// a spelling of the location of `to` as seen from `from`
func (g *lgen) spell(from, to string) string {
	if from == to {
		return ""
	}
	if strings.HasPrefix(to, "http") {
		return to
	}
	if strings.HasPrefix(from, "http") {
		return to // an absolute file path from an http document
	}
	rel, err := filepath.Rel(path.Dir(from), to)
	if err != nil {
		return to
	}
	rel = filepath.ToSlash(rel)
	switch g.r.Intn(5) {
	case 0:
		return "./" + rel
	case 1:
		return to // absolute path
	case 2:
		return path.Dir(rel) + "/./" + path.Base(rel)
	}
	return rel
}

func (g *lgen) refTo(from string, kind string) map[string]any {
	r := g.r
	cands := g.targets[kind]
	switch {
	case !g.faulty:
	case r.Chance(6): // dangling
		return jobj("$ref", "#/components/"+lKindColl[kind]+"/Missing")
	case r.Chance(5): // wrong kind
		other := Pick(r, []string{"schema", "parameter", "response", "example", "header"})
		if other != kind && len(g.targets[other]) > 0 {
			t := Pick(r, g.targets[other])
			return jobj("$ref", g.spell(from, t[0])+t[1])
		}
	case r.Chance(5): // an extension area of the same file
		return jobj("$ref", "#/x-defs/"+strings.ToUpper(kind[:1])+kind[1:])
	}
	if len(cands) == 0 {
		return nil
	}
	t := Pick(r, cands)
	return jobj("$ref", g.spell(from, t[0])+t[1])
}

func (g *lgen) orRef(from, kind string, depth int, inline func() map[string]any) map[string]any {
	if depth <= 0 || g.r.Chance(45) {
		if m := g.refTo(from, kind); m != nil {
			return m
		}
	}
	return inline()
}

func (g *lgen) schema(from string, depth int) map[string]any {
	r := g.r
	s := jobj("description", g.id(), "type", "object")
	if depth > 0 {
		if r.Chance(50) {
			props := map[string]any{}
			for _, k := range []string{"a", "b"} {
				if r.Chance(60) {
					props[k] = g.orRef(from, "schema", depth-1, func() map[string]any { return g.schema(from, depth-1) })
				}
			}
			s["properties"] = props
		}
		if r.Chance(25) {
			s["items"] = g.orRef(from, "schema", depth-1, func() map[string]any { return g.schema(from, depth-1) })
		}
		if r.Chance(20) {
			s["allOf"] = []any{g.orRef(from, "schema", depth-1, func() map[string]any { return g.schema(from, depth-1) }),
				g.orRef(from, "schema", depth-1, func() map[string]any { return g.schema(from, depth-1) })}
		}
		if r.Chance(12) {
			s["additionalProperties"] = g.orRef(from, "schema", depth-1, func() map[string]any { return g.schema(from, depth-1) })
		}
		if r.Chance(10) {
			s["not"] = g.orRef(from, "schema", depth-1, func() map[string]any { return g.schema(from, depth-1) })
		}
		if r.Chance(10) {
			s[Pick(r, []string{"anyOf", "oneOf"})] = []any{g.orRef(from, "schema", depth-1, func() map[string]any { return g.schema(from, depth-1) })}
		}
	}
	return s
}
func (g *lgen) example(from string) map[string]any { return jobj("description", g.id(), "value", 1.0) }
func (g *lgen) media(from string, depth int, withExamples bool) map[string]any {
	m := jobj("schema", g.orRef(from, "schema", depth, func() map[string]any { return g.schema(from, depth) }))
	if withExamples && g.r.Chance(35) {
		m["examples"] = jobj("e", g.orRef(from, "example", depth, func() map[string]any { return g.example(from) }))
	}
	return m
}
func (g *lgen) parameter(from string, depth int, header bool) map[string]any {
	p := jobj("description", g.id())
	if !header {
		p["name"], p["in"] = "p"+g.id(), "query"
	}
	if g.r.Chance(75) {
		p["schema"] = g.orRef(from, "schema", depth, func() map[string]any { return g.schema(from, depth) })
	} else {
		p["content"] = jobj("application/json", g.media(from, depth, g.r.Chance(30)))
	}
	if g.r.Chance(10) {
		p["examples"] = jobj("x", g.orRef(from, "example", depth, func() map[string]any { return g.example(from) }))
	}
	return p
}
func (g *lgen) requestBody(from string, depth int) map[string]any {
	return jobj("description", g.id(), "content", jobj("application/json", g.media(from, depth, true)))
}
func (g *lgen) response(from string, depth int) map[string]any {
	resp := jobj("description", g.id())
	if g.r.Chance(70) {
		resp["content"] = jobj("application/json", g.media(from, depth, true))
	}
	if g.r.Chance(40) {
		resp["headers"] = jobj("X-H", g.orRef(from, "header", depth, func() map[string]any { return g.parameter(from, depth, true) }))
	}
	if g.r.Chance(25) {
		resp["links"] = jobj("l", g.orRef(from, "link", depth, func() map[string]any { return jobj("description", g.id(), "operationId", "op") }))
	}
	return resp
}

var lDocURIs = []string{"/api/root.json", "/api/ext.json", "/api/sub/deep.json", "/shared.json", "http://h.example/defs/remote.json"}
var lSingleURIs = []struct{ uri, kind string }{{"/api/one_schema.json", "schema"}, {"/api/sub/one_response.json", "response"},
	{"/models/one_param.json", "parameter"}, {"/api/one_scheme.json", "securityScheme"}, {"/api/sub/one_example.json", "example"},
	{"/api/bodies/one_body.json", "requestBody"}, {"/models/one_header.json", "header"}, {"/api/sub/one_link.json", "link"}}

func lRandom(r *Rng) LCase {
	g := &lgen{r: r, targets: map[string][][2]string{}, faulty: r.Chance(30)}
	nd := 1 + r.Intn(4)
	if r.Chance(30) {
		nd = 1
	}
	common := r.Chance(35) // component names shared between files
	// first pass: declare the components each file will hold (so that references can go anywhere, cycles included)
	type decl struct{ kind, name string }
	decls := map[string][]decl{}
	for i := 0; i < nd; i++ {
		uri := lDocURIs[i]
		g.files = append(g.files, &LFile{URI: uri})
		for _, kind := range []string{"schema", "schema", "parameter", "header", "requestBody", "response", "example", "securityScheme", "link"} {
			if kind != "schema" && r.Chance(45) {
				continue
			}
			name := fmt.Sprintf("%s%d", strings.ToUpper(kind[:1]), len(decls[uri]))
			if !common {
				name = fmt.Sprintf("F%d%s", i, name)
			}
			decls[uri] = append(decls[uri], decl{kind, name})
			g.targets[kind] = append(g.targets[kind], [2]string{uri, "#/components/" + lKindColl[kind] + "/" + name})
		}
	}
	var singles []int
	for i := range lSingleURIs {
		if r.Chance(30) {
			singles = append(singles, i)
			g.targets[lSingleURIs[i].kind] = append(g.targets[lSingleURIs[i].kind], [2]string{lSingleURIs[i].uri, ""})
		}
	}
	depth := 1 + r.Intn(2)
	build := func(from, kind string) map[string]any {
		switch kind {
		case "schema":
			return g.schema(from, depth)
		case "parameter":
			return g.parameter(from, depth, false)
		case "header":
			return g.parameter(from, depth, true)
		case "requestBody":
			return g.requestBody(from, depth)
		case "response":
			return g.response(from, depth)
		case "example":
			return g.example(from)
		case "securityScheme":
			return jobj("description", g.id(), "type", "http", "scheme", "basic")
		}
		return jobj("description", g.id(), "operationId", "op")
	}
	for i := 0; i < nd; i++ {
		f := g.files[i]
		comps := map[string]any{}
		for _, d := range decls[f.URI] {
			coll := lKindColl[d.kind]
			if comps[coll] == nil {
				comps[coll] = map[string]any{}
			}
			var v map[string]any
			if r.Chance(18) { // a component that is itself a reference (chains, pure reference cycles)
				v = g.refTo(f.URI, d.kind)
			}
			if v == nil {
				v = build(f.URI, d.kind)
			}
			comps[coll].(map[string]any)[d.name] = v
		}
		doc := jobj("openapi", "3.0.3", "info", jobj("title", "t", "version", "1"), "components", comps)
		paths := map[string]any{}
		if i == 0 || r.Chance(40) {
			for _, p := range []string{"/a", "/b"} {
				if p == "/b" && r.Chance(60) {
					continue
				}
				op := jobj("responses", jobj("200", g.orRef(f.URI, "response", depth, func() map[string]any { return g.response(f.URI, depth) })))
				if r.Chance(50) {
					op["parameters"] = []any{g.orRef(f.URI, "parameter", depth, func() map[string]any { return g.parameter(f.URI, depth, false) })}
				}
				if r.Chance(40) {
					op["requestBody"] = g.orRef(f.URI, "requestBody", depth, func() map[string]any { return g.requestBody(f.URI, depth) })
				}
				item := jobj(Pick(r, []string{"get", "post"}), op)
				if r.Chance(25) {
					item["parameters"] = []any{g.orRef(f.URI, "parameter", depth, func() map[string]any { return g.parameter(f.URI, depth, false) })}
				}
				paths[p] = item
			}
		}
		doc["paths"] = paths
		if r.Chance(30) {
			doc["x-defs"] = jobj("Schema", g.schema(f.URI, 0), "Response", jobj("description", g.id()), "Parameter", g.parameter(f.URI, 0, false))
		}
		f.Doc = doc
	}
	for _, si := range singles {
		s := lSingleURIs[si]
		m := build(s.uri, s.kind)
		m["x-kind"] = s.kind
		g.files = append(g.files, &LFile{URI: s.uri, Single: m})
	}
	c := LCase{Allow: r.Chance(80), Entry: r.Intn(3), Root: g.files[0].URI}
	for _, f := range g.files {
		c.Files = append(c.Files, *f)
	}
	// plain data round trip
	b, _ := json.Marshal(c.Files)
	c.Files = nil
	must(json.Unmarshal(b, &c.Files))
	return c
}

func lPathItemCases() []LCase {
	var out []LCase
	obj := func(id int, kv ...any) map[string]any {
		m := jobj(kv...)
		m["description"] = fmt.Sprintf("id%d", id)
		return m
	}
	info := jobj("title", "t", "version", "1")
	item := func(id int) map[string]any {
		return obj(id, "parameters", []any{jref("parameters", "P")},
			"get", jobj("responses", jobj("200", jref("responses", "R")), "parameters", []any{jobj("name", "q", "in", "query", "description", "id50", "schema", jref("schemas", "S"))}))
	}
	comps := func(base int) map[string]any {
		return jobj("parameters", jobj("P", obj(base+1, "name", "p", "in", "query", "schema", obj(base+2, "type", "string"))),
			"responses", jobj("R", obj(base+3)), "schemas", jobj("S", obj(base+4, "type", "object")))
	}
	for _, entry := range []int{0, 2} {
		for _, target := range []string{"ext.json#/paths/~1x", "ext.json#/x-path-items/shared", "sub/deep.json#/paths/~1x"} {
			for _, rootHasSameNames := range []bool{true, false} {
				rc := jobj()
				if rootHasSameNames {
					rc = comps(100)
				}
				root := LFile{URI: "/api/root.json", Doc: jobj("openapi", "3.0.3", "info", info, "components", rc, "paths", jobj("/a", jobj("$ref", target)))}
				ext := LFile{URI: "/api/ext.json", Doc: jobj("openapi", "3.0.3", "info", info, "components", comps(200), "paths", jobj("/x", item(20)), "x-path-items", jobj("shared", item(21)))}
				deep := LFile{URI: "/api/sub/deep.json", Doc: jobj("openapi", "3.0.3", "info", info, "components", comps(300), "paths", jobj("/x", item(30)))}
				c := LCase{Allow: true, Entry: entry, Root: root.URI, Files: []LFile{root, ext, deep}, NoModel: true}
				b, _ := json.Marshal(c.Files)
				c.Files = nil
				must(json.Unmarshal(b, &c.Files))
				out = append(out, c)
			}
		}
	}
	return out
}

func lDirected() []LCase {
	mk := func(allow bool, entry int, files ...LFile) LCase {
		c := LCase{Allow: allow, Entry: entry, Root: files[0].URI, Files: files}
		b, _ := json.Marshal(c.Files)
		c.Files = nil
		must(json.Unmarshal(b, &c.Files))
		return c
	}
	doc := func(uri string, comps map[string]any, paths map[string]any) LFile {
		if paths == nil {
			paths = map[string]any{}
		}
		return LFile{URI: uri, Doc: jobj("openapi", "3.0.3", "info", jobj("title", "t", "version", "1"), "components", comps, "paths", paths)}
	}
	obj := func(id int, kv ...any) map[string]any {
		m := jobj(kv...)
		m["description"] = fmt.Sprintf("id%d", id)
		m["type"] = "object"
		return m
	}
	var out []LCase
	for _, allow := range []bool{true, false} {
		for entry := 0; entry < 3; entry++ {
			// chain and diamond inside one document
			out = append(out, mk(allow, entry, doc("/api/root.json", jobj("schemas", jobj(
				"A", obj(1, "properties", jobj("x", jref("schemas", "B"), "y", jref("schemas", "C"))),
				"B", jref("schemas", "C"), "C", obj(2, "items", jref("schemas", "A")))), nil)))
			// the same reference text in the root and in an external file (in-progress set keyed by the text)
			out = append(out, mk(allow, entry,
				doc("/api/root.json", jobj("schemas", jobj("A", obj(1, "properties", jobj("p", jobj("$ref", "ext.json#/components/schemas/X")))), "B", obj(5)), nil),
				doc("/api/ext.json", jobj("schemas", jobj("A", obj(2), "X", obj(3, "properties", jobj("q", jref("schemas", "A"), "r", jref("schemas", "B"))), "B", obj(4))), nil)))
			// pure reference cycle and self reference
			out = append(out, mk(allow, entry, doc("/api/root.json", jobj("schemas", jobj("A", jref("schemas", "B"), "B", jref("schemas", "A"),
				"S", jref("schemas", "S"), "U", obj(1, "properties", jobj("c", jref("schemas", "A"))))), nil)))
			// wrong kind closing a cycle: the callback registered by the parameter routine asserts *Parameter
			out = append(out, mk(allow, entry, doc("/api/root.json", jobj(
				"schemas", jobj("A", obj(1, "properties", jobj("x", jref("schemas", "A")))),
				"parameters", jobj("P", jobj("$ref", "#/components/schemas/A"))), nil)))
			out = append(out, mk(allow, entry, doc("/api/root.json", jobj(
				"responses", jobj("R", jobj("description", "id1", "content", jobj("application/json", jobj("schema", obj(2, "properties", jobj("loop", jobj("$ref", "#/components/responses/R")))))))), nil)))
			// one file read under two kinds: its own text is in progress as a parameter when the schema routine meets it
			out = append(out, mk(allow, entry,
				doc("/api/root.json", jobj("parameters", jobj("P", jobj("$ref", "p.json"))), nil),
				LFile{URI: "/api/p.json", Single: jobj("x-kind", "parameter", "name", "p", "in", "query", "description", "id2",
					"schema", obj(3, "properties", jobj("again", jobj("$ref", "p.json"))))}))
			out = append(out, mk(allow, entry, LFile{URI: "/api/root.json", Doc: jobj("openapi", "3.0.3", "info", jobj("title", "t", "version", "1"),
				"x-defs", jobj("P", jobj("x-kind", "parameter", "name", "p", "in", "query", "description", "id2", "schema", jobj("$ref", "#/x-defs/S")),
					"S", obj(3, "properties", jobj("back", jobj("$ref", "#/x-defs/P")))),
				"components", jobj("parameters", jobj("Q", jobj("$ref", "#/x-defs/P"))), "paths", jobj())}))
			// whole-file references, nested directories, a reference back into the root
			out = append(out, mk(allow, entry,
				doc("/api/root.json", jobj("schemas", jobj("A", jobj("$ref", "sub/one.json"), "K", obj(9)),
					"responses", jobj("R", jobj("$ref", "./sub/../sub/resp.json"))), nil),
				LFile{URI: "/api/sub/one.json", Single: jobj("x-kind", "schema", "description", "id2", "type", "object",
					"properties", jobj("back", jobj("$ref", "../root.json#/components/schemas/K"), "in", jobj("$ref", "#/components/schemas/K"), "sib", jobj("$ref", "one.json")))},
				LFile{URI: "/api/sub/resp.json", Single: jobj("x-kind", "response", "description", "id3", "content", jobj("application/json", jobj("schema", jobj("$ref", "one.json"))))}))
			// link chains across directories: every hop is resolved relative to the file that holds the reference followed
			// (decoys with other content sit where a hop resolved against the wrong file would land)
			out = append(out, mk(allow, entry,
				doc("/api/root.json", jobj("responses", jobj("R", jobj("description", "id1", "links", jobj("l", jobj("$ref", "sub/a.json#/components/links/L"))))), nil),
				doc("/api/sub/a.json", jobj("links", jobj("L", jobj("$ref", "b.json#/components/links/L"))), nil),
				doc("/api/sub/b.json", jobj("links", jobj("L", jobj("description", "id5", "operationId", "op"))), nil),
				doc("/api/b.json", jobj("links", jobj("L", jobj("description", "id6", "operationId", "decoy"))), nil)))
			out = append(out, mk(allow, entry,
				doc("/api/root.json", jobj("responses", jobj("R", jobj("description", "id1", "links", jobj("l", jobj("$ref", "sub/a.json#/components/links/L"))))), nil),
				doc("/api/sub/a.json", jobj("links", jobj("L", jobj("$ref", "deeper/c.json#/components/links/M"))), nil),
				doc("/api/sub/deeper/c.json", jobj("links", jobj("M", jobj("$ref", "../b.json#/components/links/L"))), nil),
				doc("/api/sub/b.json", jobj("links", jobj("L", jobj("description", "id5", "operationId", "op"))), nil),
				doc("/api/b.json", jobj("links", jobj("L", jobj("description", "id6", "operationId", "decoy"))), nil),
				doc("/api/sub/deeper/b.json", jobj("links", jobj("L", jobj("description", "id7", "operationId", "decoy2"))), nil)))
			// the same for a chain of responses and of examples
			out = append(out, mk(allow, entry,
				doc("/api/root.json", jobj("responses", jobj("R", jobj("$ref", "sub/a.json#/components/responses/R"))), nil),
				doc("/api/sub/a.json", jobj("responses", jobj("R", jobj("$ref", "b.json#/components/responses/R"))), nil),
				doc("/api/sub/b.json", jobj("responses", jobj("R", jobj("description", "id5"))), nil),
				doc("/api/b.json", jobj("responses", jobj("R", jobj("description", "id6"))), nil)))
			// positions no resolver visits
			out = append(out, mk(allow, entry, doc("/api/root.json", jobj(
				"examples", jobj("E", jobj("description", "id1", "value", 1.0)),
				"links", jobj("L", jobj("description", "id2", "operationId", "o"), "M", jref("links", "L")),
				"parameters", jobj("P", jobj("name", "p", "in", "query", "description", "id3", "schema", obj(4), "examples", jobj("e", jref("examples", "E")))),
				"headers", jobj("H", jobj("description", "id5", "content", jobj("application/json", jobj("schema", jref("schemas", "S"))))),
				"schemas", jobj("S", obj(6))), nil)))
			// extension area, dangling, external with the switch off
			out = append(out, mk(allow, entry, LFile{URI: "/api/root.json", Doc: jobj("openapi", "3.0.3", "info", jobj("title", "t", "version", "1"), "paths", jobj(),
				"x-defs", jobj("Thing", obj(7)), "components", jobj("schemas", jobj("A", jobj("$ref", "#/x-defs/Thing"), "B", obj(8, "items", jref("schemas", "A")))))}))
			out = append(out, mk(allow, entry, doc("/api/root.json", jobj("schemas", jobj("A", obj(1, "items", jref("schemas", "Nope")))), nil)))
			// URLs whose path is empty or equals the root's path on another host
			for _, ref := range []string{"http://h.example#/components/schemas/Z", "//h.example#/components/schemas/Z", "http://h.example",
				"http://other.example/api/root.json#/components/schemas/Z", "https://other.example/api/root.json", "file:///api/root.json#/components/schemas/K2",
				"//other.example/api/root.json#/components/parameters/P"} {
				out = append(out, mk(allow, entry,
					doc("/api/root.json", jobj("schemas", jobj("A", jobj("$ref", ref), "K2", obj(4)), "parameters", jobj("Q", jobj("name", "q", "in", "query", "description", "id8", "schema", jobj("$ref", ref)))), nil),
					doc("http://h.example", jobj("schemas", jobj("Z", obj(5))), nil),
					doc("http://other.example/api/root.json", jobj("schemas", jobj("Z", obj(6)), "parameters", jobj("P", jobj("name", "p", "in", "query", "description", "id7", "schema", obj(9)))), nil)))
			}
			out = append(out, mk(allow, entry,
				doc("http://h.example/defs/root.json", jobj("schemas", jobj("A", jobj("$ref", "other.json#/components/schemas/Z"), "B", jobj("$ref", "//h.example/defs/other.json#/components/schemas/Z"))), nil),
				doc("http://h.example/defs/other.json", jobj("schemas", jobj("Z", obj(3))), nil)))
		}
	}
	return out
}

func runLoaderProp(prop string, judge string) {
	runners[prop] = func(seed uint64, n int, outDir string, replay string) {
		var cases []LCase
		if replay != "" {
			cases = loadReplayCases[LCase](replay)
		} else {
			cases = append(loadCorpus[LCase](prop), lDirected()...)
			cases = append(cases, lPathItemCases()...)
			r := NewRng(seed)
			for i := 0; i < n; i++ {
				cases = append(cases, lRandom(r))
			}
			if prop == "C20" {
				cases = append(cases, c20Directed()...)
				cases = append(cases, c20Mutants(NewRng(seed+77), n/2)...)
			}
		}
		meta := &Meta{Property: prop, Seed: seed, Histogram: map[string]int{}, Shard: 50,
			Rule: "directed reference graphs (chain, diamond, same text in two files, pure reference cycles, wrong kind closing a cycle, whole-file references with nested directories and a reference back into the root, unvisited positions, extension areas, dangling, http) x {allowed, disallowed} x {LoadFromFile/URI, LoadFromData, LoadFromDataWithPath} + seeded random stores: 1-4 documents (nested directories, an http host) and 0-5 single-element files, 1-9 components of 8 kinds each, references (45%) to any component or file of the slot's kind under a random relative spelling, plus dangling (6%), wrong-kind (5%) and extension-area (5%) targets, components that are themselves references (18%), shared component names across files (35%); non-trivial = the store has at least one reference; distinct by JSON of the case; C02/C20 also run histories on one Loader (Go side): a first load (directed: a chain breaking off at a missing target, a self-referential schema left open by an error; generated: up to 30 stores, failing ones first) followed by a self-contained document with the same reference texts at a location of its own, via LoadFromData and LoadFromDataWithPath, compared with a fresh Loader; C02 also loads up to 60 multi-file stores (and directed ones whose resources differ in the query, host or scheme only) through the caching reader URIMapCache and compares with the plain reader"}
		seen := map[string]bool{}
		var terms []string
		var idx []int
		if prop == "C11" && replay == "" {
			c11Extra(outDir, meta)
		}
		after := map[int]string{}
		if prop == "C20" {
			after = c20After(cases, outDir)
		}
		for i := range cases {
			c := &cases[i]
			o := runLoad(c, false)
			o.After = after[i]
			meta.Cases = append(meta.Cases, map[string]any{"input": c, "go": o})
			meta.Histogram[fmt.Sprintf("outcome=%d", o.Out)]++
			if prop == "C20" && o.After != "" {
				var sigs []string
				if strings.HasPrefix(o.After, "fatal") {
					// which operation died, and whether the document has the shape of a recorded finding
					f := strings.Fields(o.After)
					sig := "after-load:fatal:" + f[len(f)-1]
					switch {
					case f[len(f)-1] == "validate" && lcaseCompositionCycle(c):
						sig += ":schema-reaches-itself-through-a-composition"
					case f[len(f)-1] == "internalize" && lcaseCallbackCycle(c):
						sig += ":callback-reaches-itself"
					}
					sigs = []string{sig}
				} else {
					for _, part := range strings.Split(o.After, ";") {
						if f := strings.Fields(strings.ReplaceAll(part, ":", " ")); len(f) == 2 {
							sig := "after-load:" + f[0] + "-" + f[1] // e.g. internalize-panic@openapi3.(*T).derefHeaders, internalize-timeout
							if f[1] == "timeout" && f[0] == "internalize" && lcaseCallbackCycle(c) {
								// the recorded finding: the descent through a callback that registers itself (it ends in a
								// stack overflow or, on a slow machine, in the watchdog)
								sig += ":callback-reaches-itself"
							}
							sigs = append(sigs, sig)
						}
					}
				}
				for _, sig := range sigs {
					meta.GoViolation = append(meta.GoViolation, map[string]any{"signature": sig, "cases": []any{c}, "go_observation": o, "judgement": "a loaded document made " + o.After})
				}
			}
			if c.Bytes != "" {
				// byte-level mutants: outcome only (no store model)
				if o.Out >= 2 {
					sig := fmt.Sprintf("bytes:outcome=%d", o.Out)
					if o.Out == 2 && strings.HasPrefix(o.Err, "interface conversion: interface {} is *openapi3.") && strings.Contains(o.Err, ", not *openapi3.") {
						// the recorded finding (class 1 of the modelled cases): a backtrack callback asserts its own routine's
						// type on what a routine of another kind resolved under the same reference text
						sig += ":callback-of-another-kind"
					}
					meta.GoViolation = append(meta.GoViolation, map[string]any{"signature": sig, "cases": []any{c}, "go_observation": o, "judgement": "loading mutated bytes: " + o.Err})
				}
				meta.Histogram["byte_mutants"]++
				continue
			}
			terms = append(terms, lCoq(c, &o))
			idx = append(idx, i)
			key, _ := json.Marshal(c)
			if !seen[string(key)] {
				seen[string(key)] = true
				meta.Distinct++
			}
			meta.Histogram[fmt.Sprintf("files=%d", len(c.Files))]++
			meta.Histogram[fmt.Sprintf("allow=%v", c.Allow)]++
			meta.Histogram[fmt.Sprintf("entry=%d", c.Entry)]++
		}
		meta.NCases = len(cases)
		if (prop == "C02" || prop == "C20") && replay == "" {
			lHistories(cases, func(i int) *LObs {
				o := meta.Cases[i].(map[string]any)["go"].(LObs)
				return &o
			}, meta, 30, 8)
		}
		if prop == "C02" && replay == "" {
			lDirectedExtras(meta)
			lCacheTransparency(cases, func(i int) *LObs {
				o := meta.Cases[i].(map[string]any)["go"].(LObs)
				return &o
			}, meta, 60, false)
		}
		if prop == "C20" && replay == "" {
			lCacheTransparency(cases, func(i int) *LObs {
				o := meta.Cases[i].(map[string]any)["go"].(LObs)
				return &o
			}, meta, 20, true)
		}
		meta.Files, meta.Offsets = writeCasesInterned(outDir, "cases", "From KV Require Import Model.Base Model.Loader Exec.LoaderExec.", "lcase", judge, terms, meta.Shard)
		meta.IndexMap = idx
		writeMeta(outDir, meta)
		fmt.Fprintf(os.Stderr, "%s: %d cases (%d to Coq)\n", prop, len(cases), len(terms))
		_ = sort.Strings
	}
}

// C20: validating, serialising and internalising whatever was loaded must return normally.  A
// fatal error (stack overflow) cannot be recovered, so these run in a child process that reports
// case by case; the parent restarts it after the case that killed it.
func afterOps(c *LCase) string {
	loader := openapi3.NewLoader()
	loader.IsExternalRefsAllowed = c.Allow
	loader.ReadFromURIFunc = func(_ *openapi3.Loader, u *url.URL) ([]byte, error) {
		if b, ok := c.fileBytes(u.String()); ok {
			return b, nil
		}
		return nil, fmt.Errorf("no such file: %s", u.String())
	}
	var doc *openapi3.T
	var err error
	rootBytes, _ := c.fileBytes(c.Root)
	if c.Bytes != "" {
		rootBytes = []byte(c.Bytes)
	}
	if p := catchPanic(func() {
		if c.Entry == 1 {
			doc, err = loader.LoadFromData(rootBytes)
		} else {
			u, _ := url.Parse(c.Root)
			doc, err = loader.LoadFromDataWithPath(rootBytes, u)
		}
	}); p != nil || err != nil || doc == nil {
		return ""
	}
	res := ""
	for _, name := range []string{"validate", "marshal", "internalize"} {
		f := map[string]func(){
			"validate":    func() { _ = doc.Validate(loader.Context) },
			"marshal":     func() { _, _ = doc.MarshalJSON() },
			"internalize": func() { doc.InternalizeRefs(loader.Context, nil) },
		}[name]
		done := make(chan any, 1)
		fmt.Printf("phase %s\n", name)
		os.Stdout.Sync()
		go func() {
			// a panic is identified by the library function it came out of
			defer func() {
				if r := recover(); r != nil {
					where := "unknown"
					for _, fr := range kinFrame.FindAllString(string(debug.Stack()), -1) {
						if !strings.Contains(fr, "verifharness") {
							where = strings.TrimPrefix(fr, "github.com/getkin/kin-openapi/")
							break
						}
					}
					done <- where
					return
				}
				done <- nil
			}()
			f()
		}()
		select {
		case p := <-done:
			if p != nil {
				res += name + ": panic@" + strings.NewReplacer(" ", "", ";", "", ":", "").Replace(fmt.Sprint(p)) + "; "
			}
		case <-time.After(2 * time.Second):
			// the spinning goroutine cannot be stopped: report and let the process die
			res += name + ": timeout; "
			return res + "EXIT"
		}
	}
	return res
}

func init() {
	runners["C20after"] = func(seed uint64, n int, outDir string, replay string) {
		cases := loadReplayCases[LCase](replay)
		for i := int(seed); i < len(cases); i++ {
			fmt.Printf("start %d\n", i)
			os.Stdout.Sync()
			wd := time.AfterFunc(8*time.Second, func() {
				fmt.Printf("done %d load: timeout;\n", i)
				os.Stdout.Sync()
				os.Exit(3)
			})
			r := afterOps(&cases[i])
			wd.Stop()
			fmt.Printf("done %d %s\n", i, strings.TrimSuffix(r, "EXIT"))
			os.Stdout.Sync()
			if strings.HasSuffix(r, "EXIT") {
				os.Exit(3)
			}
		}
	}
}

// runs the child over all cases; returns, per case index, what went wrong ("" = nothing)
func c20After(cases []LCase, outDir string) map[int]string {
	return runInChildren("C20after", cases, outDir)
}

// runInChildren: the child runner `prop` prints "start i" / "done i <text>" per case and exits(3) after a timeout
func runInChildren(prop string, cases []LCase, outDir string) map[int]string {
	return runChildrenRaw(prop, len(cases), outDir, func(idx []int) []byte {
		var mine []LCase
		for _, i := range idx {
			mine = append(mine, cases[i])
		}
		b, _ := json.Marshal(map[string]any{"cases": mine})
		return b
	})
}

func runChildrenRaw(prop string, ncases int, outDir string, marshal func(idx []int) []byte) map[int]string {
	res := map[int]string{}
	var mu sync.Mutex
	var wg sync.WaitGroup
	const workers = 12
	self, _ := os.Executable()
	for w := 0; w < workers; w++ {
		wg.Add(1)
		go func(w int) {
			defer wg.Done()
			var orig []int
			for i := w; i < ncases; i += workers {
				orig = append(orig, i)
			}
			mine := orig
			fn := filepath.Join(outDir, fmt.Sprintf("child_%s_%d.json", prop, w))
			must(os.WriteFile(fn, marshal(orig), 0o644))
			defer os.Remove(fn)
			for start := 0; start < len(mine); {
				cmd := exec.Command(self, "-prop", prop, "-seed", fmt.Sprint(start), "-out", outDir, "-replay", fn)
				outb, _ := cmd.Output()
				last, finished := start-1, true
				lastPhase := ""
				for _, line := range strings.Split(string(outb), "\n") {
					var i int
					if strings.HasPrefix(line, "phase ") {
						lastPhase = strings.TrimPrefix(line, "phase ")
					} else if n, _ := fmt.Sscanf(line, "start %d", &i); n == 1 {
						last, finished = i, false
						lastPhase = ""
					} else if strings.HasPrefix(line, "done ") {
						parts := strings.SplitN(line, " ", 3)
						fmt.Sscan(parts[1], &i)
						if len(parts) == 3 && strings.TrimSpace(parts[2]) != "" {
							mu.Lock()
							res[orig[i]] = strings.TrimSpace(parts[2])
							mu.Unlock()
						}
						finished = true
					}
				}
				if !finished && last >= 0 {
					mu.Lock()
					res[orig[last]] = "fatal: the process died (stack overflow) " + lastPhase
					mu.Unlock()
				}
				if last < start {
					break
				}
				start = last + 1
			}
		}(w)
	}
	wg.Wait()
	return res
}

func init() {
	runLoaderProp("C02", "judge_C02")
	runLoaderProp("C11", "judge_C11")
	runLoaderProp("C20", "judge_C20")
}

// C20: token- and structure-level mutants of a valid document's bytes
func c20Mutants(r *Rng, n int) []LCase {
	var out []LCase
	for i := 0; i < n; i++ {
		base := lRandom(r)
		b, _ := json.Marshal(base.Files[0].Doc)
		s := string(b)
		for k := 1 + r.Intn(3); k > 0 && len(s) > 2; k-- {
			p := r.Intn(len(s))
			switch r.Intn(7) {
			case 0:
				s = s[:p] + s[p+1:]
			case 1:
				s = s[:p] + Pick(r, []string{"{", "}", "[", "]", "\"", ":", ",", "null", "1e999", "\\u0000", "-"}) + s[p:]
			case 2:
				s = strings.Replace(s, "\"object\"", Pick(r, []string{"null", "[]", "7", "{}", "\"\""}), 1)
			case 3:
				s = strings.Replace(s, "{\"$ref\":", "{\"$ref\":"+Pick(r, []string{"7,\"x\":", "null,\"x\":", "[],\"x\":", "\"#/\",\"x\":", "\"#\",\"x\":", "\"#/components\",\"x\":", "\"#/paths\",\"x\":", "\"#/info\",\"x\":", "\"#/components/schemas\",\"x\":"}), 1)
			case 4:
				s = strings.Replace(s, "\"properties\":{", "\"properties\":"+Pick(r, []string{"[", "null,\"y\":{", "7,\"y\":{"}), 1)
			case 5:
				s = s[:p]
			default:
				s = strings.Replace(s, "\"components\":{", "\"components\":"+Pick(r, []string{"null,\"c\":{", "[],\"c\":{", "{\"schemas\":null},\"c\":{"}), 1)
			}
		}
		// deep nesting now and then
		if r.Chance(5) {
			s = strings.Repeat("{\"items\":", 1500) + "{}" + strings.Repeat("}", 1500) // loading is super-linear in the depth: 3000 levels take 7 s, too close to the 8 s watchdog
			s = "{\"openapi\":\"3.0.3\",\"info\":{\"title\":\"t\",\"version\":\"1\"},\"paths\":{},\"components\":{\"schemas\":{\"D\":" + s + "}}}"
		}
		base.Bytes = s
		base.Entry = 1 + r.Intn(2)
		out = append(out, base)
	}
	return out
}

// C20: documents aimed at the reflective drill-down (JSON pointers below a component, into lists at
// and beyond their length, into scalars) and at the typed decoders (every schema keyword with a
// value of every JSON shape)
func c20Directed() []LCase {
	var out []LCase
	mk := func(doc string) {
		for _, entry := range []int{1, 2} {
			out = append(out, LCase{Allow: true, Entry: entry, Root: "/api/root.json", Bytes: doc,
				Files: []LFile{{URI: "/api/root.json", Doc: map[string]any{"openapi": "3.0.3"}}}})
		}
	}
	frags := []string{"#/components/schemas/A/allOf/0", "#/components/schemas/A/allOf/1", "#/components/schemas/A/allOf/2", "#/components/schemas/A/allOf/-1",
		"#/components/schemas/A/allOf/x", "#/components/schemas/A/properties/x", "#/components/schemas/A/properties", "#/components/schemas/A/enum/0",
		"#/components/schemas/A/enum/1", "#/components/schemas/A/required/0", "#/components/schemas/A/required/1", "#/components/schemas/A/type",
		"#/components/schemas/A/items", "#/components/schemas/A/additionalProperties", "#/components/schemas/A/x-ext/k", "#/components/schemas/A/x-list/0",
		"#/components/schemas/A/x-list/1", "#/components/schemas/A/x-list/2", "#/components/schemas", "#/components", "#/", "#", "#/paths", "#/paths/~1a",
		"#/paths/~1a/get", "#/paths/~1a/get/responses", "#/paths/~1a/get/responses/200", "#/paths/~1a/get/parameters/0", "#/paths/~1a/get/parameters/1",
		"#/paths/~1a/parameters/0", "#/paths/~1a/parameters/1", "#/info", "#/info/title", "#/servers/0", "#/servers/1", "#/tags/0", "#/tags/0/name",
		"#/tags/1", "#/security/0", "#/openapi", "#/components/parameters/P/schema", "#/components/parameters/P/examples/e", "#/components/responses/R/headers/H",
		"#/components/responses/R/content/application~1json/schema", "#/components/requestBodies/B/content/application~1json/examples/e",
		"#/x-top/a/0/b", "#/x-top/a/1", "#/components/schemas/A/allOf/99999999999999999999", "#/components/schemas/A/allOf/4294967296"}
	base := func(ref string, kind string) string {
		target := fmt.Sprintf(`{"$ref":%q}`, ref)
		sch, par, resp := `{"type":"string"}`, `{"name":"q","in":"query","schema":{"type":"string"}}`, `{"description":"d"}`
		switch kind {
		case "schema":
			sch = target
		case "parameter":
			par = target
		case "response":
			resp = target
		}
		return `{"openapi":"3.0.3","info":{"title":"t","version":"1"},"servers":[{"url":"/"}],"tags":[{"name":"x"}],"security":[{}],"x-top":{"a":[{"b":{"type":"string"}}]},` +
			`"paths":{"/a":{"parameters":[{"name":"p","in":"query","schema":{"type":"string"}}],"get":{"parameters":[` + par + `],"responses":{"200":` + resp + `}}}},` +
			`"components":{"schemas":{"A":{"type":"object","allOf":[{"type":"object"}],"properties":{"x":{"type":"integer"}},"enum":[1],"required":["x"],"items":{"type":"string"},` +
			`"additionalProperties":true,"x-ext":{"k":{"type":"string"}},"x-list":[{"type":"string"},7]},"B":` + sch + `},` +
			`"parameters":{"P":{"name":"p","in":"query","schema":{"type":"string"},"examples":{"e":{"value":"v"}}}},` +
			`"responses":{"R":{"description":"d","headers":{"H":{"schema":{"type":"string"}}},"content":{"application/json":{"schema":{"type":"string"}}}}},` +
			`"requestBodies":{"B":{"content":{"application/json":{"schema":{"type":"string"},"examples":{"e":{"value":"v"}}}}}}}}`
	}
	for _, fr := range frags {
		for _, kind := range []string{"schema", "parameter", "response"} {
			mk(base(fr, kind))
		}
	}
	// fragments through a component that is itself a reference, into members that are absent, into an operation without responses
	sparse := func(ref string) string {
		return `{"openapi":"3.0.3","info":{"title":"t","version":"1"},"paths":{"/b":{"get":{}},"/c":{}},` +
			`"components":{"schemas":{"A":{"type":"object"},"C":{"$ref":"#/components/schemas/A"},"D":{"$ref":"#/components/schemas/C"},"T":{"$ref":` + fmt.Sprintf("%q", ref) + `},"0":{"$ref":` + fmt.Sprintf("%q", ref) + `}},` +
			`"parameters":{"P":{"name":"p","in":"query"}},"responses":{"R":{"description":"d"}},"requestBodies":{"B":{"content":{}}},"headers":{"H":{}}}}`
	}
	for _, fr := range []string{"#/components/schemas/A/items", "#/components/schemas/A/not", "#/components/schemas/A/additionalProperties", "#/components/schemas/A/properties/x",
		"#/components/schemas/A/allOf/0", "#/components/schemas/A/externalDocs", "#/components/schemas/A/discriminator", "#/components/schemas/A/xml", "#/components/schemas/A/default",
		"#/components/schemas/C/additionalProperties", "#/components/schemas/C/items", "#/components/schemas/C/properties/x", "#/components/schemas/D/additionalProperties", "#/components/schemas/D/type",
		"#/paths/~1b/get/responses/200", "#/paths/~1b/get/responses", "#/paths/~1b/get/requestBody", "#/paths/~1b/get/parameters/0", "#/paths/~1b/post", "#/paths/~1c/get", "#/paths/~1c/get/responses/200",
		"#/paths/~1d", "#/components/parameters/P/schema", "#/components/parameters/P/content/application~1json", "#/components/responses/R/content/application~1json/schema",
		"#/components/responses/R/headers/H", "#/components/requestBodies/B/content/application~1json/schema", "#/components/headers/H/schema", "#/servers/0", "#/tags/0", "#/externalDocs",
		"#/security/0", "#/components/securitySchemes/S", "#/components/links/L", "#/components/callbacks/C", "#/components/examples/E"} {
		mk(sparse(fr))
	}
	// a default / example that document validation checks against a schema of every unusual shape: an empty
	// type list, a type list of several, no type, contradictory bounds, an unknown format
	for _, sch := range []string{`{"type":[]}`, `{"type":[],"nullable":true}`, `{"type":["string","integer"]}`, `{"type":["null"]}`, `{}`, `{"type":"string","minLength":5,"maxLength":1}`,
		`{"type":"integer","format":"nope"}`, `{"type":"array","items":{"type":[]}}`, `{"type":"object","properties":{"p":{"type":[]}},"additionalProperties":{"type":[]}}`,
		`{"oneOf":[{"type":[]},{"type":[]}]}`, `{"not":{"type":[]}}`, `{"enum":[]}`, `{"type":"string","pattern":""}`, `{"pattern":"("}`, `{"pattern":"(?!x)a","minLength":1}`} {
		for _, val := range []string{`1`, `"x"`, `null`, `[1,"x"]`, `{"p":1,"q":"x"}`, `true`} {
			withVal := sch[:len(sch)-1]
			if withVal != "{" {
				withVal += ","
			}
			mk(`{"openapi":"3.0.3","info":{"title":"t","version":"1"},"paths":{"/a":{"get":{"parameters":[{"name":"q","in":"query","schema":` + sch + `,"example":` + val + `}],` +
				`"responses":{"200":{"description":"d","content":{"application/json":{"schema":` + sch + `,"example":` + val + `}}}}}}},` +
				`"components":{"schemas":{"D":` + withVal + `"default":` + val + `},"E":` + withVal + `"example":` + val + `}}}}`)
			// ... and each position alone (document validation stops at the first error: in the document above
			// the default of D hides the example of E, the components hide the operation)
			head := `{"openapi":"3.0.3","info":{"title":"t","version":"1"},`
			mk(head + `"paths":{"/a":{"get":{"parameters":[{"name":"q","in":"query","schema":` + sch + `,"example":` + val + `}],"responses":{"200":{"description":"d"}}}}}}`)
			mk(head + `"paths":{"/a":{"get":{"responses":{"200":{"description":"d","content":{"application/json":{"schema":` + sch + `,"example":` + val + `}}}}}}}}`)
			mk(head + `"paths":{},"components":{"schemas":{"D":` + withVal + `"default":` + val + `}}}}`)
			mk(head + `"paths":{},"components":{"schemas":{"E":` + withVal + `"example":` + val + `}}}}`)
		}
	}
	// a callback that registers itself again (an event subscription that renews itself), alone and next to a path that uses it
	for _, used := range []bool{false, true} {
		paths := `{}`
		if used {
			paths = `{"/s":{"post":{"responses":{"200":{"description":"ok"}},"callbacks":{"onEvent":{"$ref":"#/components/callbacks/C"}}}}}`
		}
		mk(`{"openapi":"3.0.3","info":{"title":"t","version":"1"},"paths":` + paths + `,"components":{"callbacks":{"C":{"{$request.body#/u}":{"post":{"responses":{"200":{"description":"ok"}},` +
			`"callbacks":{"again":{"$ref":"#/components/callbacks/C"}}}}}}}}`)
	}
	// chains of diamonds: every level reaches the next one through two edges - validating, serialising and
	// internalising must stay linear in the number of schemas (65 here), not in the number of paths (2^64)
	for _, edges := range [][2]string{{"not", "additionalProperties"}, {"allOf", "items"}, {"oneOf", "properties"}, {"anyOf", "not"}, {"items", "additionalProperties"}} {
		var b strings.Builder
		b.WriteString(`{"openapi":"3.0.3","info":{"title":"t","version":"1"},"paths":{},"components":{"schemas":{`)
		edge := func(kind string, next int) string {
			ref := fmt.Sprintf(`{"$ref":"#/components/schemas/S%d"}`, next)
			switch kind {
			case "allOf", "oneOf", "anyOf":
				return fmt.Sprintf(`%q:[%s]`, kind, ref)
			case "properties":
				return fmt.Sprintf(`"properties":{"x":%s}`, ref)
			}
			return fmt.Sprintf(`%q:%s`, kind, ref)
		}
		for i := 0; i < 64; i++ {
			fmt.Fprintf(&b, `"S%d":{%s,%s},`, i, edge(edges[0], i+1), edge(edges[1], i+1))
		}
		b.WriteString(`"S64":{"type":"string"}}}}`)
		mk(b.String())
	}
	// ... and diamonds whose two edges are siblings one level down: two properties (or the two members of an
	// allOf) that both reach the next level through the same keyword
	for _, kind := range []string{"additionalProperties", "items", "not", "allOf", "properties", "oneOf"} {
		for _, holder := range []string{"properties", "allOf"} {
			var b strings.Builder
			b.WriteString(`{"openapi":"3.0.3","info":{"title":"t","version":"1"},"paths":{},"components":{"schemas":{`)
			for i := 0; i < 48; i++ {
				ref := fmt.Sprintf(`{"$ref":"#/components/schemas/S%d"}`, i+1)
				var via string
				switch kind {
				case "allOf", "oneOf":
					via = fmt.Sprintf(`{%q:[%s]}`, kind, ref)
				case "properties":
					via = fmt.Sprintf(`{"type":"object","properties":{"x":%s}}`, ref)
				case "items":
					via = fmt.Sprintf(`{"type":"array","items":%s}`, ref)
				case "additionalProperties":
					via = fmt.Sprintf(`{"type":"object","additionalProperties":%s}`, ref)
				default:
					via = fmt.Sprintf(`{%q:%s}`, kind, ref)
				}
				if holder == "properties" {
					fmt.Fprintf(&b, `"S%d":{"type":"object","properties":{"a":%s,"b":%s}},`, i, via, via)
				} else {
					fmt.Fprintf(&b, `"S%d":{"allOf":[%s,%s]},`, i, via, via)
				}
			}
			b.WriteString(`"S48":{"type":"string"}}}}`)
			mk(b.String())
		}
	}
	// every node of a complete document replaced by null (one at a time)
	var full any
	must(json.Unmarshal([]byte(base("#/components/schemas/A", "schema")), &full))
	full.(map[string]any)["externalDocs"] = map[string]any{"url": "https://example.com"}
	full.(map[string]any)["servers"] = []any{map[string]any{"url": "https://{h}.example.com", "variables": map[string]any{"h": map[string]any{"default": "a", "enum": []any{"a"}}}}}
	comps := full.(map[string]any)["components"].(map[string]any)
	comps["examples"] = map[string]any{"E": map[string]any{"value": 1.0}}
	comps["links"] = map[string]any{"L": map[string]any{"operationId": "o", "parameters": map[string]any{"p": 1.0}}}
	comps["headers"] = map[string]any{"H": map[string]any{"schema": map[string]any{"type": "string"}}}
	comps["securitySchemes"] = map[string]any{"S": map[string]any{"type": "oauth2", "flows": map[string]any{"implicit": map[string]any{"authorizationUrl": "https://a.example", "scopes": map[string]any{"s": "d"}}}}}
	comps["callbacks"] = map[string]any{"C": map[string]any{"{$url}": map[string]any{"post": map[string]any{"responses": map[string]any{"200": map[string]any{"description": "d"}}}}}}
	comps["requestBodies"].(map[string]any)["B"].(map[string]any)["content"].(map[string]any)["application/json"].(map[string]any)["encoding"] = map[string]any{"a": map[string]any{"contentType": "text/plain", "headers": map[string]any{"X": map[string]any{"schema": map[string]any{"type": "string"}}}}}
	var nullify func(v any, set func(any))
	nullify = func(v any, set func(any)) {
		set(nil)
		b, _ := json.Marshal(full)
		mk(string(b))
		set(v)
		switch x := v.(type) {
		case map[string]any:
			for _, k := range sortedKeys(x) {
				k := k
				nullify(x[k], func(n any) { x[k] = n })
			}
		case []any:
			for i := range x {
				i := i
				nullify(x[i], func(n any) { x[i] = n })
			}
		}
	}
	root := full.(map[string]any)
	for _, k := range sortedKeys(root) {
		k := k
		nullify(root[k], func(n any) { root[k] = n })
	}
	// every schema keyword with a value of every JSON shape
	keys := []string{"type", "format", "title", "description", "enum", "default", "example", "externalDocs", "uniqueItems", "exclusiveMinimum", "exclusiveMaximum",
		"nullable", "readOnly", "writeOnly", "allowEmptyValue", "deprecated", "xml", "minimum", "maximum", "multipleOf", "minLength", "maxLength", "pattern",
		"minItems", "maxItems", "items", "required", "properties", "minProperties", "maxProperties", "additionalProperties", "discriminator", "oneOf", "anyOf", "allOf", "not", "x-ext"}
	vals := []string{"null", "true", "0", "-1", "1.5", "1e400", `""`, `"date"`, `"string"`, "[]", "[1]", `["a"]`, "{}", `{"a":1}`, `{"type":"string"}`, `[{"type":"string"}]`, `{"$ref":"#/components/schemas/A"}`}
	for _, k := range keys {
		for _, v := range vals {
			for _, ctx := range []string{`"type":"string","format":"date"`, `"type":"array","items":{}`, `"type":"object"`} {
				mk(`{"openapi":"3.0.3","info":{"title":"t","version":"1"},"paths":{},"components":{"schemas":{"A":{"type":"string"},"S":{` + ctx + `,` + fmt.Sprintf("%q", k) + `:` + v + `}}}}`)
			}
		}
	}
	// a specification of two files whose root sits at different depths - directly under the root of its file
	// system or server included: internalising must end whatever the common directory of the two locations is
	for _, root := range []string{"/openapi.yaml", "https://example.com/openapi.yaml", "/a/openapi.yaml", "https://example.com/a/b/openapi.yaml", "file:///openapi.yaml"} {
		dir := root[:strings.LastIndex(root, "/")+1]
		common := map[string]any{"openapi": "3.0.3", "info": map[string]any{"title": "c", "version": "1"}, "paths": map[string]any{},
			"components": map[string]any{"schemas": map[string]any{"Shared": map[string]any{"type": "object", "properties": map[string]any{"self": map[string]any{"$ref": "#/components/schemas/Shared"}}}},
				"parameters": map[string]any{"P": map[string]any{"name": "p", "in": "query", "schema": map[string]any{"type": "string"}}}}}
		rootDoc := `{"openapi":"3.0.3","info":{"title":"t","version":"1"},"paths":{"/a":{"get":{"parameters":[{"$ref":"common.yaml#/components/parameters/P"}],` +
			`"responses":{"200":{"description":"ok","content":{"application/json":{"schema":{"$ref":"common.yaml#/components/schemas/Shared"}}}}}}}}}`
		out = append(out, LCase{Allow: true, Entry: 2, Root: root, Bytes: rootDoc,
			Files: []LFile{{URI: root, Doc: map[string]any{"openapi": "3.0.3"}}, {URI: dir + "common.yaml", Doc: common}}})
	}
	return out
}

// the root document of a case, as JSON
func lcaseRoot(c *LCase) map[string]any {
	var root map[string]any
	if c.Bytes != "" {
		json.Unmarshal([]byte(c.Bytes), &root)
		return root
	}
	for _, f := range c.Files {
		if f.URI == c.Root {
			b, _ := json.Marshal(f.Doc)
			json.Unmarshal(b, &root)
		}
	}
	return root
}

// a component schema reaches itself through allOf / anyOf / oneOf / not edges alone, possibly across
// files (the recorded finding: Validate checks defaults and examples through VisitJSON, which follows
// such edges without end).  Files are told apart by their base names, which the generators keep distinct.
func lcaseCompositionCycle(c *LCase) bool {
	// every document the loader may read under a file name: the root as loaded (its bytes, possibly mutated) and
	// the root as the store holds it (a reference from another file back into the root is read from the store)
	type fdoc struct {
		file string
		doc  map[string]any
	}
	var docs []fdoc
	base := func(u string) string { return u[strings.LastIndex(u, "/")+1:] }
	if c.Bytes != "" {
		docs = append(docs, fdoc{base(c.Root), lcaseRoot(c)})
	}
	for _, f := range c.Files {
		var d map[string]any
		b, _ := json.Marshal(f.Doc)
		json.Unmarshal(b, &d)
		docs = append(docs, fdoc{base(f.URI), d})
	}
	edges := map[string][]string{}
	target := func(file, r string) (string, bool) {
		i := strings.Index(r, "#/components/schemas/")
		if i < 0 {
			return "", false
		}
		f := file
		if i > 0 {
			f = base(r[:i])
		}
		return f + "#" + r[i+len("#/components/schemas/"):], true
	}
	var collect func(file, from string, v any)
	collect = func(file, from string, v any) {
		m, ok := v.(map[string]any)
		if !ok {
			return
		}
		if r, ok := m["$ref"].(string); ok {
			if t, ok := target(file, r); ok {
				edges[from] = append(edges[from], t)
			}
			return
		}
		for _, k := range []string{"allOf", "anyOf", "oneOf"} {
			if l, ok := m[k].([]any); ok {
				for _, e := range l {
					collect(file, from, e)
				}
			}
		}
		collect(file, from, m["not"])
	}
	for _, fd := range docs {
		file, d := fd.file, fd.doc
		comps, _ := d["components"].(map[string]any)
		schemas, _ := comps["schemas"].(map[string]any)
		for name, sch := range schemas {
			collect(file, file+"#"+name, map[string]any{"allOf": []any{sch}})
		}
	}
	var reach func(from, to string, seen map[string]bool) bool
	reach = func(from, to string, seen map[string]bool) bool {
		for _, n := range edges[from] {
			if n == to {
				return true
			}
			if !seen[n] {
				seen[n] = true
				if reach(n, to, seen) {
					return true
				}
			}
		}
		return false
	}
	for from := range edges {
		if reach(from, from, map[string]bool{}) {
			return true
		}
	}
	return false
}

// a callback that is reached again from one of its own operations' callbacks
func lcaseCallbackCycle(c *LCase) bool {
	b, _ := json.Marshal(lcaseRoot(c))
	s := string(b)
	i := strings.Index(s, `"callbacks"`)
	return i >= 0 && strings.Contains(s[i+1:], `"callbacks"`) && strings.Contains(s, `#/components/callbacks/`)
}
