package main

import (
	_ "embed"
	"encoding/json"
	"fmt"
	"os"
	"reflect"
	"sort"
	"strings"

	"github.com/getkin/kin-openapi/openapi2"
	"github.com/getkin/kin-openapi/openapi3"
	"github.com/oasdiff/yaml"
	yaml3 "github.com/oasdiff/yaml3"
)

//go:embed data/sink3.json
var sink3 []byte

//go:embed data/sink2.json
var sink2 []byte

type childRule struct {
	typ  string
	kind string // one | list | map
}

var c03Rules3 = map[string]map[string]childRule{
	"T":          {"info": {"Info", "one"}, "servers": {"Server", "list"}, "tags": {"Tag", "list"}, "externalDocs": {"ExternalDocs", "one"}, "components": {"Components", "one"}, "paths": {"PathItem", "map"}},
	"Info":       {"contact": {"Contact", "one"}, "license": {"License", "one"}},
	"Server":     {"variables": {"ServerVariable", "map"}},
	"Tag":        {"externalDocs": {"ExternalDocs", "one"}},
	"Components": {"schemas": {"Schema", "map"}, "parameters": {"Parameter", "map"}, "headers": {"Header", "map"}, "requestBodies": {"RequestBody", "map"}, "responses": {"Response", "map"}, "securitySchemes": {"SecurityScheme", "map"}, "examples": {"Example", "map"}, "links": {"Link", "map"}, "callbacks": {"Callback", "map"}},
	"Callback":   {"*": {"PathItem", "one"}},
	"PathItem": {"get": {"Operation", "one"}, "put": {"Operation", "one"}, "post": {"Operation", "one"}, "delete": {"Operation", "one"}, "options": {"Operation", "one"}, "head": {"Operation", "one"}, "patch": {"Operation", "one"}, "trace": {"Operation", "one"},
		"parameters": {"Parameter", "list"}, "servers": {"Server", "list"}},
	"Operation":      {"externalDocs": {"ExternalDocs", "one"}, "parameters": {"Parameter", "list"}, "requestBody": {"RequestBody", "one"}, "responses": {"Response", "map"}, "callbacks": {"Callback", "map"}, "servers": {"Server", "list"}},
	"Parameter":      {"schema": {"Schema", "one"}, "content": {"MediaType", "map"}, "examples": {"Example", "map"}},
	"Header":         {"schema": {"Schema", "one"}, "content": {"MediaType", "map"}, "examples": {"Example", "map"}},
	"RequestBody":    {"content": {"MediaType", "map"}},
	"MediaType":      {"schema": {"Schema", "one"}, "examples": {"Example", "map"}, "encoding": {"Encoding", "map"}},
	"Encoding":       {"headers": {"Header", "map"}},
	"Response":       {"headers": {"Header", "map"}, "content": {"MediaType", "map"}, "links": {"Link", "map"}},
	"Link":           {"server": {"Server", "one"}},
	"SecurityScheme": {"flows": {"OAuthFlows", "one"}},
	"OAuthFlows":     {"implicit": {"OAuthFlow", "one"}, "password": {"OAuthFlow", "one"}, "clientCredentials": {"OAuthFlow", "one"}, "authorizationCode": {"OAuthFlow", "one"}},
	"Schema": {"items": {"Schema", "one"}, "not": {"Schema", "one"}, "additionalProperties": {"Schema", "one"}, "allOf": {"Schema", "list"}, "anyOf": {"Schema", "list"}, "oneOf": {"Schema", "list"},
		"properties": {"Schema", "map"}, "discriminator": {"Discriminator", "one"}, "xml": {"XML", "one"}, "externalDocs": {"ExternalDocs", "one"}},
}
var c03Rules2 = map[string]map[string]childRule{
	"T": {"paths": {"PathItem", "map"}, "definitions": {"Schema", "map"}, "parameters": {"Parameter", "map"}, "responses": {"Response", "map"}, "securityDefinitions": {"SecurityScheme", "map"}},
	"PathItem": {"get": {"Operation", "one"}, "put": {"Operation", "one"}, "post": {"Operation", "one"}, "delete": {"Operation", "one"}, "options": {"Operation", "one"}, "head": {"Operation", "one"}, "patch": {"Operation", "one"},
		"parameters": {"Parameter", "list"}},
	"Operation": {"parameters": {"Parameter", "list"}, "responses": {"Response", "map"}},
	"Parameter": {"schema": {"Schema", "one"}},
	"Response":  {"schema": {"Schema", "one"}},
	// (additionalProperties of a Swagger 2 schema holds an openapi3 schema: not typed here)
	"Schema": {"items": {"Schema", "one"}, "not": {"Schema", "one"}, "allOf": {"Schema", "list"}, "properties": {"Schema", "map"}},
}

type typedLoc struct {
	path []string
	typ  string
}

func c03Walk(rules map[string]map[string]childRule, v any, typ string, path []string, out *[]typedLoc) {
	m, ok := v.(map[string]any)
	if !ok {
		return
	}
	if _, isRef := m["$ref"]; isRef {
		return
	}
	*out = append(*out, typedLoc{append([]string{}, path...), typ})
	for k, child := range m {
		r, ok := rules[typ][k]
		if !ok {
			r, ok = rules[typ]["*"]
			if !ok || strings.HasPrefix(k, "x-") {
				continue
			}
		}
		switch r.kind {
		case "one":
			c03Walk(rules, child, r.typ, append(path, k), out)
		case "list":
			if l, ok := child.([]any); ok {
				for i, e := range l {
					c03Walk(rules, e, r.typ, append(path, k, fmt.Sprint(i)), out)
				}
			}
		case "map":
			if mm, ok := child.(map[string]any); ok {
				for kk, e := range mm {
					c03Walk(rules, e, r.typ, append(path, k, kk), out)
				}
			}
		}
	}
}

func getAt(v any, path []string) (any, bool) {
	for _, t := range path {
		switch x := v.(type) {
		case map[string]any:
			e, ok := x[t]
			if !ok {
				return nil, false
			}
			v = e
		case []any:
			var i int
			if _, err := fmt.Sscan(t, &i); err != nil || i < 0 || i >= len(x) {
				return nil, false
			}
			v = x[i]
		default:
			return nil, false
		}
	}
	return v, true
}

type C03Mut struct {
	Path []string `json:"path"`
	Op   string   `json:"op"` // ext | unknown | delete | zero
	Key  string   `json:"key"`
	Val  any      `json:"val,omitempty"`
}
type C03Case struct {
	Version int      `json:"version"` // 3 or 2
	Muts    []C03Mut `json:"mutations"`
	YAML    bool     `json:"yaml"`
}
type C03Obs struct {
	Loaded     bool     `json:"loaded"`
	Err        string   `json:"err,omitempty"`
	Normal     bool     `json:"normal_form"`
	Violations []string `json:"violations,omitempty"`
	Lost       []string `json:"lost,omitempty"`
	Invented   []string `json:"invented,omitempty"`
	Changed    []string `json:"changed,omitempty"`
	Locs       int      `json:"typed_locations"`
}

func c03Apply(c *C03Case) (any, bool) {
	var doc any
	if c.Version == 3 {
		json.Unmarshal(sink3, &doc)
	} else {
		json.Unmarshal(sink2, &doc)
	}
	normal := true
	for _, m := range c.Muts {
		at, ok := getAt(doc, m.Path)
		obj, isObj := at.(map[string]any)
		if !ok || !isObj {
			continue
		}
		switch m.Op {
		case "ext", "unknown":
			obj[m.Key] = m.Val
		case "delete":
			delete(obj, m.Key)
		case "zero":
			if old, has := obj[m.Key]; has {
				switch old.(type) {
				case string:
					obj[m.Key] = ""
				case bool:
					obj[m.Key] = false
				case float64:
					obj[m.Key] = 0.0
				case []any:
					obj[m.Key] = []any{}
				case map[string]any:
					obj[m.Key] = map[string]any{}
				}
				normal = false
			}
		}
	}
	return doc, normal
}

// the document last loaded by c03Load (version 3), for the writer that goes through the MarshalYAML methods
var c03LastDoc *openapi3.T

func c03Load(version int, data []byte) (func() ([]byte, error), error) {
	if version == 3 {
		doc, err := openapi3.NewLoader().LoadFromData(data)
		if err != nil {
			return nil, err
		}
		c03LastDoc = doc
		return doc.MarshalJSON, nil
	}
	var d openapi2.T
	if err := yaml.Unmarshal(data, &d); err != nil {
		return nil, err
	}
	return func() ([]byte, error) { return json.Marshal(&d) }, nil
}

func c03Diff(p string, a, b any, lost, invented, changed *[]string) {
	switch x := a.(type) {
	case map[string]any:
		y, ok := b.(map[string]any)
		if !ok {
			*changed = append(*changed, p)
			return
		}
		for k, v := range x {
			if w, ok := y[k]; !ok {
				*lost = append(*lost, p+"/"+k)
			} else {
				c03Diff(p+"/"+k, v, w, lost, invented, changed)
			}
		}
		for k := range y {
			if _, ok := x[k]; !ok {
				*invented = append(*invented, p+"/"+k)
			}
		}
	case []any:
		y, ok := b.([]any)
		if !ok || len(x) != len(y) {
			*changed = append(*changed, p)
			return
		}
		for i := range x {
			c03Diff(fmt.Sprintf("%s/%d", p, i), x[i], y[i], lost, invented, changed)
		}
	default:
		if !reflect.DeepEqual(a, b) {
			*changed = append(*changed, p)
		}
	}
}

type c03Loc struct {
	typ  string
	in   map[string]any
	out  map[string]any
	path string
}

func runC03(c *C03Case) (C03Obs, []c03Loc) {
	var o C03Obs
	doc, normal := c03Apply(c)
	o.Normal = normal
	input, _ := json.Marshal(doc)
	data := input
	if c.YAML {
		y, err := yaml.JSONToYAML(input)
		if err != nil {
			o.Err = "yaml: " + err.Error()
			return o, nil
		}
		data = y
	}
	var marshal func() ([]byte, error)
	var err error
	if p := catchPanic(func() { marshal, err = c03Load(c.Version, data) }); p != nil {
		o.Err = fmt.Sprint("panic: ", p)
		o.Violations = append(o.Violations, "panic-on-load")
		return o, nil
	}
	if err != nil {
		o.Err = err.Error()
		return o, nil
	}
	o.Loaded = true
	first := c03LastDoc
	out1, err := marshal()
	if err != nil {
		o.Err = "marshal: " + err.Error()
		o.Violations = append(o.Violations, "marshal-error")
		return o, nil
	}
	var a, b any
	json.Unmarshal(input, &a)
	json.Unmarshal(out1, &b)
	c03Diff("", a, b, &o.Lost, &o.Invented, &o.Changed)
	sort.Strings(o.Lost)
	sort.Strings(o.Invented)
	sort.Strings(o.Changed)
	if normal && (len(o.Lost)+len(o.Invented)+len(o.Changed) > 0) {
		o.Violations = append(o.Violations, "roundtrip-differs")
	}
	if !normal && len(o.Invented) > 0 {
		o.Violations = append(o.Violations, "invented")
	}
	// stability: a second trip (through JSON and through the YAML writer) gives the same JSON
	m2, err := c03Load(c.Version, out1)
	if err != nil {
		o.Violations = append(o.Violations, "reload-fails")
	} else if out2, err := m2(); err != nil || !sameJSONText(string(out1), string(out2)) {
		o.Violations = append(o.Violations, "unstable")
	}
	if y1, err := yaml.JSONToYAML(out1); err == nil {
		if m3, err := c03Load(c.Version, y1); err != nil {
			o.Violations = append(o.Violations, "yaml-reload-fails")
		} else if out3, err := m3(); err != nil || !sameJSONText(string(out1), string(out3)) {
			o.Violations = append(o.Violations, "unstable-through-yaml")
		}
	}
	// the YAML writer proper (the MarshalYAML methods, as yaml.Marshal(doc) uses them) writes the same document
	if c.Version == 3 && first != nil {
		var y2 []byte
		var yerr error
		if p := catchPanic(func() { y2, yerr = yaml3.Marshal(first) }); p != nil || yerr != nil {
			o.Violations = append(o.Violations, "yaml-writer-fails")
		} else if m4, err := c03Load(3, y2); err != nil {
			o.Violations = append(o.Violations, "yaml-writer-output-does-not-load")
		} else if out4, err := m4(); err != nil || !sameJSONText(string(out1), string(out4)) {
			o.Violations = append(o.Violations, "yaml-writer-differs-from-json-writer")
			var x, y any
			json.Unmarshal(out1, &x)
			json.Unmarshal(out4, &y)
			var l, i, ch []string
			c03Diff("", x, y, &l, &i, &ch)
			o.Err = fmt.Sprintf("yaml writer: lost %v invented %v changed %v", l, i, ch)
		}
	}
	// typed locations for the model comparison
	rules, prefix := c03Rules3, "openapi3."
	if c.Version == 2 {
		rules, prefix = c03Rules2, "openapi2."
	}
	var locs []typedLoc
	c03Walk(rules, a, "T", nil, &locs)
	sort.Slice(locs, func(i, j int) bool { return strings.Join(locs[i].path, "/") < strings.Join(locs[j].path, "/") })
	var res []c03Loc
	for _, l := range locs {
		ia, _ := getAt(a, l.path)
		ib, ok := getAt(b, l.path)
		im, _ := ia.(map[string]any)
		om, _ := ib.(map[string]any)
		if !ok {
			om = nil
		}
		res = append(res, c03Loc{prefix + l.typ, im, om, "/" + strings.Join(l.path, "/")})
	}
	o.Locs = len(res)
	return o, res
}

func c03Zero(v any) bool {
	switch x := v.(type) {
	case nil:
		return true
	case string:
		return x == ""
	case bool:
		return !x
	case float64:
		return x == 0
	case []any:
		return len(x) == 0
	case map[string]any:
		return len(x) == 0
	}
	return false
}

func c03Coq(l *c03Loc) string {
	keys := sortedKeys(l.in)
	var in []string
	for _, k := range keys {
		v := "(JBool true)"
		if c03Zero(l.in[k]) {
			v = "JNull"
		}
		in = append(in, fmt.Sprintf("(%s, %s)", coqStr(k), v))
	}
	return fmt.Sprintf("mkC03 %s %s %s", coqStr(l.typ), coqList(in), coqStrList(sortedKeys(l.out)))
}

func c03Random(r *Rng, locs3, locs2 []typedLoc) C03Case {
	c := C03Case{Version: 3, YAML: r.Chance(35)}
	locs := locs3
	if r.Chance(30) {
		c.Version, locs = 2, locs2
	}
	n := r.Intn(6)
	for i := 0; i < n; i++ {
		l := Pick(r, locs)
		m := C03Mut{Path: l.path}
		switch r.Intn(10) {
		case 0, 1, 2, 3:
			m.Op, m.Key = "ext", fmt.Sprintf("x-v%d", r.Intn(50))
			m.Val = Pick(r, []any{1.0, "s", true, []any{1.0, "a"}, map[string]any{"k": "v"}, nil})
		case 4, 5:
			m.Op, m.Key = "unknown", Pick(r, []string{"zzUnknown", "custom", "nullable", "oneOf", "anyOf", "vendor"})
			m.Val = Pick(r, []any{1.0, "s", true})
		case 6, 7, 8:
			m.Op = "delete"
			m.Key = Pick(r, []string{"description", "summary", "deprecated", "externalDocs", "example", "examples", "tags", "servers", "title", "format", "default", "xml", "headers", "links", "explode", "style", "required", "enum", "pattern"})
		default:
			m.Op = "zero"
			m.Key = Pick(r, []string{"description", "summary", "deprecated", "required", "minLength", "uniqueItems", "tags", "title"})
		}
		c.Muts = append(c.Muts, m)
	}
	return c
}

func init() {
	runners["C03"] = func(seed uint64, n int, outDir string, replay string) {
		var doc3, doc2 any
		json.Unmarshal(sink3, &doc3)
		json.Unmarshal(sink2, &doc2)
		var locs3, locs2 []typedLoc
		c03Walk(c03Rules3, doc3, "T", nil, &locs3)
		c03Walk(c03Rules2, doc2, "T", nil, &locs2)
		sort.Slice(locs3, func(i, j int) bool { return strings.Join(locs3[i].path, "/") < strings.Join(locs3[j].path, "/") })
		sort.Slice(locs2, func(i, j int) bool { return strings.Join(locs2[i].path, "/") < strings.Join(locs2[j].path, "/") })
		var cases []C03Case
		if replay != "" {
			cases = loadReplayCases[C03Case](replay)
		} else {
			cases = append(loadCorpus[C03Case]("C03"), C03Case{Version: 3}, C03Case{Version: 2}, C03Case{Version: 3, YAML: true}, C03Case{Version: 2, YAML: true})
			// directed: an extension and an unknown field at every typed location
			for _, l := range locs3 {
				cases = append(cases, C03Case{Version: 3, Muts: []C03Mut{{Path: l.path, Op: "ext", Key: "x-dir", Val: map[string]any{"a": []any{1.0}}}, {Path: l.path, Op: "unknown", Key: "zzUnknown", Val: "u"}}})
			}
			for _, l := range locs2 {
				cases = append(cases, C03Case{Version: 2, Muts: []C03Mut{{Path: l.path, Op: "ext", Key: "x-dir", Val: 1.0}, {Path: l.path, Op: "unknown", Key: "zzUnknown", Val: "u"}}},
					C03Case{Version: 2, Muts: []C03Mut{{Path: l.path, Op: "unknown", Key: "nullable", Val: true}}})
			}
			r := NewRng(seed)
			for i := 0; i < n; i++ {
				cases = append(cases, c03Random(r, locs3, locs2))
			}
		}
		meta := &Meta{Property: "C03", Seed: seed, Histogram: map[string]int{}, Shard: 4000,
			Rule: "two kitchen-sink documents (OpenAPI 3 and 2, every object kind and field, normal form) x mutations at typed locations (add an x- extension, add an unknown field, delete an optional field, set a field to its zero value) x JSON or YAML reader; every case is marshalled, compared member by member with the input, reloaded through JSON and through YAML; each typed object of each loaded case is one model comparison; non-trivial = the mutated document loads; distinct by JSON of the case"}
		seen := map[string]bool{}
		var terms []string
		var idx []int
		for i := range cases {
			c := &cases[i]
			o, locs := runC03(c)
			meta.Cases = append(meta.Cases, map[string]any{"input": c, "go": o})
			key, _ := json.Marshal(c)
			if o.Loaded && !seen[string(key)] {
				seen[string(key)] = true
				meta.Distinct++
			}
			meta.Histogram[fmt.Sprintf("loaded=%v", o.Loaded)]++
			meta.Histogram[fmt.Sprintf("version=%d,yaml=%v", c.Version, c.YAML)]++
			for _, v := range o.Violations {
				meta.Histogram["oracle:"+v]++
				if v == "roundtrip-differs" {
					for _, part := range strings.Split(c03Signature(&o), ",") {
						meta.GoViolation = append(meta.GoViolation, map[string]any{"signature": v + ":" + part, "cases": []any{c}, "go_observation": o, "judgement": "direct C03 oracle: " + v + " (" + part + ")"})
					}
					continue
				}
				meta.GoViolation = append(meta.GoViolation, map[string]any{"signature": v, "cases": []any{c}, "go_observation": o, "judgement": "direct C03 oracle: " + v})
			}
			// model comparison: every typed object of the unmutated documents, otherwise the mutated ones
			mutated := map[string]bool{}
			for _, m := range c.Muts {
				mutated["/"+strings.Join(m.Path, "/")] = true
			}
			for j := range locs {
				if len(c.Muts) > 0 && !mutated[locs[j].path] {
					continue
				}
				terms = append(terms, c03Coq(&locs[j]))
				idx = append(idx, i)
			}
		}
		if replay == "" {
			c03MultiFile(meta)
		}
		meta.NCases = len(cases)
		meta.Files, _ = writeCasesAt(outDir, "cases", "From KV Require Import Model.Base Model.Json Model.Codec Exec.C03Exec.", "c03case", "judge", terms, meta.Shard, 0)
		meta.IndexMap = idx
		meta.Histogram["typed_object_comparisons"] = len(terms)
		writeMeta(outDir, meta)
		fmt.Fprintf(os.Stderr, "C03: %d cases, %d typed objects\n", len(cases), len(terms))
	}
}

// the member names lost / invented, without their location (the finding is about the type, not the place)
func c03Signature(o *C03Obs) string {
	set := map[string]bool{}
	for _, p := range o.Lost {
		set["lost:"+p[strings.LastIndex(p, "/")+1:]] = true
	}
	for _, p := range o.Invented {
		set["invented:"+p[strings.LastIndex(p, "/")+1:]] = true
	}
	for range o.Changed {
		set["changed"] = true
	}
	return strings.Join(sortedKeys(set), ",")
}
