package main

// C06, form-urlencoded and multipart bodies (Go side): a flat object of primitives and arrays of
// primitives is encoded as a form, sent to ValidateRequestBody, and the verdict is compared with the
// one the fields determine: every text must be of its property's type, required properties present,
// no field outside the declared ones when additionalProperties is false.

import (
	"bytes"
	"context"
	"fmt"
	"mime/multipart"
	"net/http/httptest"
	"net/textproto"
	"net/url"
	"strconv"
	"strings"

	"github.com/getkin/kin-openapi/openapi3"
	"github.com/getkin/kin-openapi/openapi3filter"
	"github.com/getkin/kin-openapi/routers"
)

type C06Form struct {
	Enc      string            `json:"encoding"` // urlencoded | multipart
	Props    map[string]string `json:"properties"`
	Required []string          `json:"required,omitempty"`
	NoExtra  bool              `json:"additional_properties_false,omitempty"`
	Fields   [][2]string       `json:"fields"`
	Shape    string            `json:"shape"`
}

func formSchema(c *C06Form) *openapi3.Schema {
	s := openapi3.NewObjectSchema()
	for name, t := range c.Props {
		var p *openapi3.Schema
		mk := func(t string) *openapi3.Schema {
			switch t {
			case "integer":
				return openapi3.NewIntegerSchema()
			case "number":
				return openapi3.NewFloat64Schema()
			case "boolean":
				return openapi3.NewBoolSchema()
			}
			return openapi3.NewStringSchema()
		}
		if strings.HasPrefix(t, "array:") {
			p = openapi3.NewArraySchema().WithItems(mk(strings.TrimPrefix(t, "array:")))
		} else {
			p = mk(t)
		}
		s.WithProperty(name, p)
	}
	s.Required = c.Required
	if c.NoExtra {
		f := false
		s.AdditionalProperties = openapi3.AdditionalProperties{Has: &f}
	}
	return s
}

func textIs(t, text string) bool {
	switch t {
	case "integer":
		_, err := strconv.ParseInt(text, 10, 64)
		return err == nil
	case "number":
		_, err := strconv.ParseFloat(text, 64)
		return err == nil
	case "boolean":
		return text == "true" || text == "false"
	}
	return true
}

// the verdict the fields determine
func (c *C06Form) expected() bool {
	seen := map[string]int{}
	for _, f := range c.Fields {
		t, declared := c.Props[f[0]]
		if !declared {
			if c.NoExtra {
				return false
			}
			continue
		}
		seen[f[0]]++
		if !textIs(strings.TrimPrefix(t, "array:"), f[1]) {
			return false
		}
		if !strings.HasPrefix(t, "array:") && seen[f[0]] > 1 {
			return false
		}
	}
	for _, r := range c.Required {
		if seen[r] == 0 {
			return false
		}
	}
	return true
}

func formCases(r *Rng, n int) []C06Form {
	props := map[string]string{"s": "string", "n": "integer", "b": "boolean", "x": "number", "tags": "array:string", "ids": "array:integer"}
	var out []C06Form
	add := func(shape string, fields [][2]string, f func(c *C06Form)) {
		for _, enc := range []string{"urlencoded", "multipart"} {
			c := C06Form{Enc: enc, Props: props, Fields: fields, Shape: shape}
			if f != nil {
				f(&c)
			}
			out = append(out, c)
		}
	}
	all := [][2]string{{"s", "hello"}, {"n", "42"}, {"b", "true"}, {"x", "1.5"}, {"tags", "a"}, {"tags", "b"}, {"ids", "1"}, {"ids", "2"}}
	add("every-property-present", all, nil)
	add("every-property-present", all, func(c *C06Form) { c.Required = []string{"s", "n"}; c.NoExtra = true })
	add("optional-properties-absent", [][2]string{{"s", "hello"}}, nil)
	add("optional-properties-absent", [][2]string{{"n", "7"}}, func(c *C06Form) { c.Required = []string{"n"} })
	add("only-strings-declared", [][2]string{{"s", "hello"}}, func(c *C06Form) { c.Props = map[string]string{"s": "string", "t": "string"} })
	add("required-property-absent", [][2]string{{"s", "hello"}}, func(c *C06Form) { c.Required = []string{"n"} })
	add("text-not-of-the-declared-type", [][2]string{{"s", "hello"}, {"n", "abc"}}, nil)
	add("text-not-of-the-declared-type", [][2]string{{"b", "maybe"}, {"n", "1"}, {"s", "v"}, {"x", "1"}, {"tags", "a"}, {"ids", "1"}}, nil)
	add("text-not-of-the-declared-type", append(append([][2]string{}, all...), [2]string{"ids", "x"}), nil)
	add("undeclared-field", append(append([][2]string{}, all...), [2]string{"zz", "1"}), nil)
	add("undeclared-field-forbidden", append(append([][2]string{}, all...), [2]string{"zz", "1"}), func(c *C06Form) { c.NoExtra = true })
	names := sortedKeys(props)
	for i := 0; i < n; i++ {
		var fields [][2]string
		shape := "random"
		for _, name := range names {
			if !r.Chance(70) {
				continue
			}
			t := strings.TrimPrefix(props[name], "array:")
			k := 1
			if strings.HasPrefix(props[name], "array:") {
				k = 1 + r.Intn(3)
			}
			for j := 0; j < k; j++ {
				text := map[string][]string{"string": {"a", "x y", "é", "1"}, "integer": {"0", "-5", "42"}, "number": {"1.5", "2", "-0.25"}, "boolean": {"true", "false"}}[t][r.Intn(2)]
				if r.Chance(8) {
					text = Pick(r, []string{"abc", "", "1.5x", "TRUE"})
				}
				fields = append(fields, [2]string{name, text})
			}
		}
		c := C06Form{Enc: Pick(r, []string{"urlencoded", "multipart"}), Props: props, Fields: fields, Shape: shape, NoExtra: r.Chance(30)}
		if len(fields) == 0 {
			continue // an empty form is an absent body: the main C06 cases
		}
		if r.Chance(45) {
			// only string-typed properties, every one present: the part of the form decoders that has no recorded defect
			c.Props = map[string]string{"s": "string", "t": "string", "tags": "array:string"}
			c.Fields = [][2]string{{"s", Pick(r, []string{"a", "x y", "é"})}, {"t", Pick(r, []string{"1", "true", "v"})}, {"tags", "a"}}
			if r.Bool() {
				c.Fields = append(c.Fields, [2]string{"tags", "b c"})
			}
			c.Required = nil
			if r.Bool() {
				c.Required = []string{"s", "tags"}
			}
			if r.Chance(25) {
				c.Fields = c.Fields[1:] // s absent
			}
		}
		for _, name := range names {
			if r.Chance(20) {
				c.Required = append(c.Required, name)
			}
		}
		if r.Chance(15) {
			c.Fields = append(c.Fields, [2]string{"zz", "1"})
		}
		out = append(out, c)
	}
	return out
}

func runForm(c *C06Form) (sig, detail string) {
	var body bytes.Buffer
	ct := "application/x-www-form-urlencoded"
	if c.Enc == "urlencoded" {
		q := url.Values{}
		for _, f := range c.Fields {
			q.Add(f[0], f[1])
		}
		body.WriteString(q.Encode())
	} else {
		w := multipart.NewWriter(&body)
		for _, f := range c.Fields {
			_ = w.WriteField(f[0], f[1])
		}
		w.Close()
		ct = w.FormDataContentType()
	}
	key := ct
	if c.Enc == "multipart" {
		key = "multipart/form-data"
	}
	rb := openapi3.NewRequestBody().WithContent(openapi3.Content{key: openapi3.NewMediaType().WithSchema(formSchema(c))})
	op := openapi3.NewOperation()
	op.RequestBody = &openapi3.RequestBodyRef{Value: rb}
	op.Responses = openapi3.NewResponses()
	item := &openapi3.PathItem{Post: op}
	doc := &openapi3.T{OpenAPI: "3.0.0", Info: &openapi3.Info{Title: "t", Version: "1"}, Paths: openapi3.NewPaths()}
	route := &routers.Route{Spec: doc, Path: "/f", PathItem: item, Method: "POST", Operation: op}
	req := httptest.NewRequest("POST", "/f", bytes.NewReader(body.Bytes()))
	req.Header.Set("Content-Type", ct)
	in := &openapi3filter.RequestValidationInput{Request: req, Route: route, Options: &openapi3filter.Options{SkipSettingDefaults: true}}
	var err error
	if pn := catchPanic(func() { err = openapi3filter.ValidateRequestBody(context.Background(), in, rb) }); pn != nil {
		return "form:" + c.Enc + ":panic", fmt.Sprint(pn)
	}
	want := c.expected()
	if want == (err == nil) {
		return "", ""
	}
	// the finding a disagreement falls under is named by what the body contains (its causes), not by the generator's label
	var kinds []string
	seen := map[string]bool{}
	for _, f := range c.Fields {
		seen[f[0]] = true
		if t, ok := c.Props[f[0]]; !ok {
			kinds = append(kinds, "undeclared-field")
		} else if !textIs(strings.TrimPrefix(t, "array:"), f[1]) {
			kinds = append(kinds, "text-not-of-the-declared-type")
		} else if strings.TrimPrefix(t, "array:") != "string" {
			kinds = append(kinds, "non-string-property-present")
		}
		if f[1] == "" {
			kinds = append(kinds, "empty-text-present")
		}
	}
	for name := range c.Props {
		if !seen[name] {
			kinds = append(kinds, "declared-property-absent")
			break
		}
	}
	has := func(k string) bool {
		for _, x := range kinds {
			if x == k {
				return true
			}
		}
		return false
	}
	// the recorded defects of the form decoders, each explaining one direction of disagreement
	cause := "unexplained"
	if want {
		switch {
		// (a declared property that the form does not carry used to be stored as null - repaired in /repo, no longer a cause)
		case c.Enc == "urlencoded" && has("empty-text-present"):
			cause = "empty-text-present" // an empty text decodes to nil (a whole array becomes nil): the C05 finding on empty elements
		case c.Enc == "multipart" && has("undeclared-field"):
			cause = "undeclared-field" // "part zz: undefined" although additional properties are allowed
		case c.Enc == "multipart" && has("non-string-property-present"):
			cause = "non-string-property-present" // a text part is always decoded as a string
		}
		detail := ""
		if err != nil {
			detail = err.Error()
		}
		return "form:" + c.Enc + ":body-satisfying-the-schema-rejected:" + cause, detail
	}
	switch {
	case c.Enc == "urlencoded" && has("text-not-of-the-declared-type"):
		cause = "text-not-of-the-declared-type" // the decoding error is swallowed and the field dropped
	case c.Enc == "urlencoded" && has("undeclared-field") && c.NoExtra:
		cause = "undeclared-field" // dropped before additionalProperties: false could reject it
	}
	return "form:" + c.Enc + ":body-violating-the-schema-accepted:" + cause, ""
}

// multipart parts with a Content-Transfer-Encoding: the value a part encodes is its
// transfer-decoded content (quoted-printable is the one encoding mime/multipart undoes)
func runFormTransferEncoding() (sig, detail string) {
	for _, tc := range []struct{ text, qp string }{{"café a=b", "caf=C3=A9 a=3Db"}, {"x=1", "x=3D1"}, {"plain", "plain"}, {"two\r\nlines", "two\r\nlines"}} {
		var body bytes.Buffer
		w := multipart.NewWriter(&body)
		h := textproto.MIMEHeader{}
		h.Set("Content-Disposition", `form-data; name="s"`)
		h.Set("Content-Transfer-Encoding", "quoted-printable")
		pw, _ := w.CreatePart(h)
		pw.Write([]byte(tc.qp))
		w.Close()
		s := openapi3.NewObjectSchema().WithProperty("s", openapi3.NewStringSchema().WithEnum(tc.text))
		rb := openapi3.NewRequestBody().WithContent(openapi3.Content{"multipart/form-data": openapi3.NewMediaType().WithSchema(s)})
		op := openapi3.NewOperation()
		op.RequestBody = &openapi3.RequestBodyRef{Value: rb}
		op.Responses = openapi3.NewResponses()
		item := &openapi3.PathItem{Post: op}
		doc := &openapi3.T{OpenAPI: "3.0.0", Info: &openapi3.Info{Title: "t", Version: "1"}, Paths: openapi3.NewPaths()}
		route := &routers.Route{Spec: doc, Path: "/f", PathItem: item, Method: "POST", Operation: op}
		req := httptest.NewRequest("POST", "/f", bytes.NewReader(body.Bytes()))
		req.Header.Set("Content-Type", w.FormDataContentType())
		in := &openapi3filter.RequestValidationInput{Request: req, Route: route, Options: &openapi3filter.Options{SkipSettingDefaults: true}}
		var err error
		if pn := catchPanic(func() { err = openapi3filter.ValidateRequestBody(context.Background(), in, rb) }); pn != nil {
			return "form:multipart:panic", fmt.Sprint(pn)
		}
		if err != nil {
			return "form:multipart:transfer-encoded-part-not-decoded", fmt.Sprintf("part %q (quoted-printable for %q) against enum [%q]: %v", tc.qp, tc.text, tc.text, err)
		}
	}
	return "", ""
}

// urlencoded arrays under an Encoding Object: "style" and "explode" behave as for query parameters, so
// explode defaults to true for form and to false for every other style (OpenAPI 3.0.3, Encoding Object)
func runFormEncodingStyles() (out [][2]string) {
	f := false
	tr := true
	for _, tc := range []struct {
		style   string
		explode *bool
		body    string
	}{
		{"", nil, "ids=1&ids=2&ids=3"}, {"form", nil, "ids=1&ids=2&ids=3"}, {"form", &tr, "ids=1&ids=2&ids=3"}, {"form", &f, "ids=1,2,3"},
		{"spaceDelimited", &f, "ids=1%202%203"}, {"pipeDelimited", &f, "ids=1|2|3"},
		{"spaceDelimited", &tr, "ids=1&ids=2&ids=3"}, {"pipeDelimited", &tr, "ids=1&ids=2&ids=3"},
		{"spaceDelimited", nil, "ids=1%202%203"}, {"pipeDelimited", nil, "ids=1|2|3"},
	} {
		arr := openapi3.NewArraySchema().WithItems(openapi3.NewIntegerSchema()).WithMinItems(3).WithMaxItems(3)
		s := openapi3.NewObjectSchema().WithProperty("ids", arr).WithRequired([]string{"ids"})
		mt := openapi3.NewMediaType().WithSchema(s)
		if tc.style != "" || tc.explode != nil {
			mt.Encoding = map[string]*openapi3.Encoding{"ids": {Style: tc.style, Explode: tc.explode}}
		}
		rb := openapi3.NewRequestBody().WithContent(openapi3.Content{"application/x-www-form-urlencoded": mt})
		op := openapi3.NewOperation()
		op.RequestBody = &openapi3.RequestBodyRef{Value: rb}
		op.Responses = openapi3.NewResponses()
		item := &openapi3.PathItem{Post: op}
		doc := &openapi3.T{OpenAPI: "3.0.0", Info: &openapi3.Info{Title: "t", Version: "1"}, Paths: openapi3.NewPaths()}
		route := &routers.Route{Spec: doc, Path: "/f", PathItem: item, Method: "POST", Operation: op}
		req := httptest.NewRequest("POST", "/f", strings.NewReader(tc.body))
		req.Header.Set("Content-Type", "application/x-www-form-urlencoded")
		in := &openapi3filter.RequestValidationInput{Request: req, Route: route, Options: &openapi3filter.Options{SkipSettingDefaults: true}}
		var err error
		ex := "unset"
		if tc.explode != nil {
			ex = fmt.Sprint(*tc.explode)
		}
		what := fmt.Sprintf("encoding style %q explode %s body %q", tc.style, ex, tc.body)
		if pn := catchPanic(func() { err = openapi3filter.ValidateRequestBody(context.Background(), in, rb) }); pn != nil {
			out = append(out, [2]string{"form:urlencoded:panic", what + ": " + fmt.Sprint(pn)})
		} else if err != nil {
			sig := "form:urlencoded:array-in-declared-encoding-rejected"
			if tc.explode == nil && tc.style != "" && tc.style != "form" {
				sig += ":delimited-style-explode-unset"
			}
			out = append(out, [2]string{sig, what + ": " + err.Error()})
		}
	}
	return
}

// ---- urlencoded bodies against the Coq model (Model/FormBody.v, judge Exec/C06FormExec.v) ----
type C06FormObs struct {
	Err   string `json:"error,omitempty"`
	Value any    `json:"value"`
}

func (c *C06Form) gschema() *GSchema {
	g := &GSchema{HasTypes: true, Types: []string{"object"}, Props: map[string]*GSchema{}, Required: c.Required}
	for name, t := range c.Props {
		if strings.HasPrefix(t, "array:") {
			g.Props[name] = &GSchema{HasTypes: true, Types: []string{"array"}, Items: &GSchema{HasTypes: true, Types: []string{strings.TrimPrefix(t, "array:")}}}
		} else {
			g.Props[name] = &GSchema{HasTypes: true, Types: []string{t}}
		}
	}
	if c.NoExtra {
		g.ApHas = bp(false)
	}
	return g
}

func runFormDecode(c *C06Form) C06FormObs {
	q := url.Values{}
	for _, f := range c.Fields {
		q.Add(f[0], f[1])
	}
	var o C06FormObs
	var v any
	var err error
	if pn := catchPanic(func() {
		v, err = openapi3filter.UrlencodedBodyDecoder(strings.NewReader(q.Encode()), nil, formSchema(c).NewRef(), nil)
	}); pn != nil {
		o.Err = "panic: " + fmt.Sprint(pn)
		return o
	}
	if err != nil {
		o.Err = err.Error()
		return o
	}
	o.Value = v
	return o
}

func formCoq(c *C06Form, o *C06FormObs) string {
	q := url.Values{}
	for _, f := range c.Fields {
		q.Add(f[0], f[1])
	}
	keys := make([]string, 0, len(q))
	for k := range q {
		keys = append(keys, k)
	}
	sortStrings(keys)
	var qs, fs, i64, i32, fl []string
	texts := map[string]bool{}
	for _, k := range keys {
		qs = append(qs, fmt.Sprintf("(%s, %s)", coqStr(k), coqStrList(q[k])))
		t, declared := c.Props[k]
		if (declared && strings.HasPrefix(t, "array:")) || len(q[k]) != 1 {
			fs = append(fs, fmt.Sprintf("(%s, FArr %s)", coqStr(k), coqStrList(q[k])))
		} else {
			fs = append(fs, fmt.Sprintf("(%s, FPrim %s)", coqStr(k), coqStr(q[k][0])))
		}
		for _, v := range q[k] {
			texts[v] = true
		}
	}
	for _, s := range sortedSet(texts) {
		if n, err := strconv.ParseInt(s, 0, 64); err == nil {
			i64 = append(i64, fmt.Sprintf("(%s, Some %s)", coqStr(s), coqZ(n)))
		}
		if n, err := strconv.ParseInt(s, 0, 32); err == nil {
			i32 = append(i32, fmt.Sprintf("(%s, Some %s)", coqStr(s), coqZ(n)))
		}
		if f, err := strconv.ParseFloat(s, 64); err == nil {
			fl = append(fl, fmt.Sprintf("(%s, Some %s)", coqStr(s), coqFloat(f)))
		}
	}
	return fmt.Sprintf("mkForm %s %s %s %s %s %s %s %s", c.gschema().Coq(), coqList(qs), coqList(fs), coqList(i64), coqList(i32), coqList(fl),
		coqBool(o.Err != ""), coqPval(o.Value))
}
