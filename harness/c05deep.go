package main

// C05, deepObject query parameters (nested objects and arrays): a Go-side round trip.  A value of
// the parameter's schema is serialised by the deepObject rules (name[prop]=v, name[obj][prop]=v,
// name[arr][0]=v, name[arr][0][prop]=v), sent together with the keys of other parameters (names
// that extend or contain the parameter's name), decoded through the hook and compared with the
// value; the absent parameter must come back as not found, and the valid value must be accepted.

import (
	"context"
	"fmt"
	"net/http"
	"net/http/httptest"
	"net/url"
	"reflect"
	"sort"
	"strings"

	"github.com/getkin/kin-openapi/openapi3"
	"github.com/getkin/kin-openapi/openapi3filter"
	"github.com/getkin/kin-openapi/routers"
)

type DeepNode struct {
	Type   string               `json:"type"` // integer number boolean string array object
	Format string               `json:"format,omitempty"`
	Items  *DeepNode            `json:"items,omitempty"`
	Props  map[string]*DeepNode `json:"properties,omitempty"`
	AP     *DeepNode            `json:"additionalProperties,omitempty"`
}

type C05Deep struct {
	Name   string              `json:"name"`
	Schema *DeepNode           `json:"schema"`
	Value  any                 `json:"value"` // nil: the parameter is absent
	Noise  map[string][]string `json:"noise,omitempty"`
	Others []string            `json:"other_parameters,omitempty"` // further deepObject parameters of the operation
}

func (n *DeepNode) toSchema() *openapi3.Schema {
	s := &openapi3.Schema{Type: &openapi3.Types{n.Type}, Format: n.Format}
	if n.AP != nil {
		s.AdditionalProperties = openapi3.AdditionalProperties{Schema: n.AP.toSchema().NewRef()}
	}
	if n.Items != nil {
		s.Items = n.Items.toSchema().NewRef()
	}
	if n.Props != nil {
		s.Properties = openapi3.Schemas{}
		for k, p := range n.Props {
			s.Properties[k] = p.toSchema().NewRef()
		}
	}
	return s
}

func deepPrim(r *Rng) *DeepNode {
	return &DeepNode{Type: Pick(r, []string{"integer", "number", "boolean", "string"})}
}

func deepGen(r *Rng, depth int) *DeepNode {
	n := &DeepNode{Type: "object", Props: map[string]*DeepNode{}}
	for _, k := range []string{"a", "b", "id", "tags"}[:1+r.Intn(4)] {
		switch x := r.Intn(10); {
		case x < 5 || depth == 0:
			n.Props[k] = deepPrim(r)
		case x < 7:
			n.Props[k] = &DeepNode{Type: "array", Items: deepPrim(r)}
		case x < 9:
			n.Props[k] = deepGen(r, depth-1)
		default:
			n.Props[k] = &DeepNode{Type: "array", Items: deepGen(r, 0)}
		}
	}
	if r.Chance(25) {
		// further members are allowed, at a type of their own (often not the type of a declared member)
		n.AP = Pick(r, []*DeepNode{{Type: "string"}, {Type: "integer"}, {Type: "boolean"}, {Type: "array", Items: &DeepNode{Type: "string"}},
			{Type: "object", Props: map[string]*DeepNode{"x": {Type: "integer"}, "y": {Type: "string"}}}})
	}
	return n
}

// a value of the schema together with its leaf texts
func deepValue(r *Rng, n *DeepNode) any {
	switch n.Type {
	case "integer":
		return int64(Pick(r, []int{0, 7, -3, 42, 1000000}))
	case "number":
		return Pick(r, []float64{1.5, -0.25, 2, 1e3})
	case "boolean":
		return r.Bool()
	case "string":
		return Pick(r, []string{"a", "xy", "hello", "a b", "é", "1", "true", "x=y", "a&b", "[0]"})
	case "array":
		k := 1 + r.Intn(3)
		out := make([]any, k)
		for i := range out {
			out[i] = deepValue(r, n.Items)
		}
		return out
	}
	m := map[string]any{}
	keys := sortedKeys(n.Props)
	for _, k := range keys {
		if r.Chance(75) {
			m[k] = deepValue(r, n.Props[k])
		}
	}
	if len(m) == 0 {
		m[keys[0]] = deepValue(r, n.Props[keys[0]])
	}
	if n.AP != nil {
		for _, k := range []string{"extra", "z9", "A"}[:r.Intn(4)] {
			m[k] = deepValue(r, n.AP)
		}
	}
	return m
}

func deepSerialise(q url.Values, prefix string, v any) {
	switch x := v.(type) {
	case map[string]any:
		for k, e := range x {
			deepSerialise(q, prefix+"["+k+"]", e)
		}
	case []any:
		for i, e := range x {
			deepSerialise(q, fmt.Sprintf("%s[%d]", prefix, i), e)
		}
	default:
		q.Add(prefix, fmt.Sprint(v))
	}
}

func deepRandom(r *Rng) C05Deep {
	c := C05Deep{Name: Pick(r, []string{"filter", "q", "f", "page.opts", "a+b", "f(x)", "p*"}), Schema: deepGen(r, 2)}
	if r.Chance(85) {
		c.Value = deepValue(r, c.Schema)
	}
	if r.Chance(70) {
		c.Noise = map[string][]string{}
		for k := 0; k < 1+r.Intn(3); k++ {
			// names that a pattern built from the unquoted name would also match
			alt1 := strings.NewReplacer(".", "_", "+", "", "(", "", ")", "", "*", "").Replace(c.Name)
			alt2 := strings.ReplaceAll(c.Name, ".", "X")
			if alt1 == c.Name {
				alt1 = "zz" + c.Name
			}
			if alt2 == c.Name {
				alt2 = "yy" + c.Name
			}
			key := Pick(r, []string{alt1 + "[a]", alt2 + "[id][0]", c.Name + "s[a]", c.Name + "x", "pre" + c.Name + "[a]", "other[" + c.Name + "][a]", c.Name + "s[id][0]", "page", c.Name + "2[b]"})
			c.Noise[key] = []string{Pick(r, []string{"zz", "1", "true"})}
		}
		if r.Chance(50) {
			c.Others = []string{c.Name + "s"}
		}
	}
	return c
}

// runDeep returns "" or the oracle that failed
func runDeep(c *C05Deep) (sig string, detail string) {
	p := &openapi3.Parameter{Name: c.Name, In: "query", Style: "deepObject", Explode: openapi3.BoolPtr(true), Schema: c.Schema.toSchema().NewRef()}
	op := openapi3.NewOperation()
	op.Parameters = openapi3.Parameters{&openapi3.ParameterRef{Value: p}}
	for _, o := range c.Others {
		op.Parameters = append(op.Parameters, &openapi3.ParameterRef{Value: &openapi3.Parameter{Name: o, In: "query", Style: "deepObject", Explode: openapi3.BoolPtr(true),
			Schema: (&DeepNode{Type: "object", Props: map[string]*DeepNode{"a": {Type: "string"}, "id": {Type: "array", Items: &DeepNode{Type: "string"}}}}).toSchema().NewRef()}})
	}
	item := &openapi3.PathItem{Get: op}
	doc := &openapi3.T{OpenAPI: "3.0.0", Info: &openapi3.Info{Title: "t", Version: "1"}, Paths: openapi3.NewPaths()}
	route := &routers.Route{Spec: doc, Path: "/p", PathItem: item, Method: "GET", Operation: op}
	q := url.Values{}
	if c.Value != nil {
		deepSerialise(q, c.Name, c.Value)
	}
	for k, vs := range c.Noise {
		for _, v := range vs {
			q.Add(k, v)
		}
	}
	mk := func() *openapi3filter.RequestValidationInput {
		req := httptest.NewRequest("GET", "/p?"+q.Encode(), nil)
		return &openapi3filter.RequestValidationInput{Request: req, Route: route, Options: &openapi3filter.Options{SkipSettingDefaults: true}}
	}
	var val any
	var found bool
	var err error
	if pn := catchPanic(func() { val, found, err = openapi3filter.VerifDecodeStyledParameter(p, mk()) }); pn != nil {
		return "deepobject:panic", fmt.Sprint(pn)
	}
	if c.Value == nil {
		switch {
		case err != nil:
			return "deepobject:absent-parameter-is-an-error", err.Error()
		case found || !isNilish(val):
			return "deepobject:absent-parameter-found", fmt.Sprintf("%#v found=%v", val, found)
		}
	} else {
		switch {
		case err != nil:
			return "deepobject:serialised-value-is-an-error", err.Error()
		case !reflect.DeepEqual(val, c.Value):
			return "deepobject:decoded-value-differs", fmt.Sprintf("got %#v want %#v", val, c.Value)
		case !found:
			return "deepobject:serialised-value-not-found", ""
		}
	}
	var verr error
	if pn := catchPanic(func() { verr = openapi3filter.ValidateRequest(context.Background(), mk()) }); pn != nil {
		return "deepobject:panic", fmt.Sprint(pn)
	}
	if verr != nil {
		return "deepobject:valid-request-rejected", verr.Error()
	}
	return "", ""
}

func isNilish(v any) bool {
	if v == nil {
		return true
	}
	rv := reflect.ValueOf(v)
	switch rv.Kind() {
	case reflect.Map, reflect.Slice:
		return rv.Len() == 0
	}
	return false
}

func deepFeatures(n *DeepNode, top bool, out map[string]bool) {
	switch n.Type {
	case "array":
		if n.Items.Type == "object" {
			out["array-of-objects"] = true
		} else {
			out["array"] = true
		}
		deepFeatures(n.Items, false, out)
	case "object":
		if !top {
			out["nested-object"] = true
		}
		for _, p := range n.Props {
			deepFeatures(p, false, out)
		}
	}
}

func (c *C05Deep) features() string {
	f := map[string]bool{}
	deepFeatures(c.Schema, true, f)
	ks := make([]string, 0, len(f))
	for k := range f {
		ks = append(ks, k)
	}
	sort.Strings(ks)
	if len(ks) == 0 {
		return "flat"
	}
	return fmt.Sprint(ks)
}

// ---- compositions (Go side): a parameter schema that is a oneOf / anyOf / allOf over primitive and array shapes ----
type C05Comp struct {
	In      string `json:"in"`
	Style   string `json:"style"`
	Explode bool   `json:"explode"`
	Comp    string `json:"composition"` // oneOf-array-first, oneOf-array-last, anyOf, allOf
	Value   any    `json:"value"`       // []any of int64, int64, or nil (absent)
}

func compCases() []C05Comp {
	var out []C05Comp
	cells := []struct {
		in, style string
		explode   bool
	}{{"query", "form", false}, {"query", "form", true}, {"query", "pipeDelimited", false}, {"query", "spaceDelimited", false}, {"header", "simple", false}, {"path", "simple", false}, {"path", "label", false}, {"cookie", "form", false}}
	for _, c := range cells {
		for _, comp := range []string{"oneOf-array-first", "oneOf-array-last", "anyOf"} {
			out = append(out, C05Comp{c.in, c.style, c.explode, comp, []any{int64(7), int64(8), int64(9)}})
			if c.in != "path" {
				out = append(out, C05Comp{c.in, c.style, c.explode, comp, nil})
			}
		}
		// an array whose items are a composition: each element is read by the members that state a type
		for _, comp := range []string{"items-allOf", "items-allOf-typeless-last", "items-allOf-typeless-first", "items-anyOf"} {
			out = append(out, C05Comp{c.in, c.style, c.explode, comp, []any{int64(7), int64(8), int64(9)}})
		}
		if c.style == "form" || c.style == "simple" || c.style == "label" {
			out = append(out, C05Comp{c.in, c.style, c.explode, "allOf", int64(5)})
			// a member that only constrains (no type) does not say how the text is read: the other member does
			out = append(out, C05Comp{c.in, c.style, c.explode, "allOf-typeless-last", int64(5)}, C05Comp{c.in, c.style, c.explode, "allOf-typeless-first", int64(5)})
		}
	}
	return out
}

func runComp(c *C05Comp) (sig, detail string) {
	arr := openapi3.NewArraySchema().WithItems(openapi3.NewIntegerSchema())
	other := openapi3.NewBoolSchema()
	var s *openapi3.Schema
	switch c.Comp {
	case "oneOf-array-first":
		s = openapi3.NewOneOfSchema(arr, other)
	case "oneOf-array-last":
		s = openapi3.NewOneOfSchema(other, arr)
	case "anyOf":
		s = openapi3.NewAnyOfSchema(arr, other)
	case "items-allOf":
		s = openapi3.NewArraySchema().WithItems(openapi3.NewAllOfSchema(openapi3.NewIntegerSchema(), openapi3.NewIntegerSchema().WithMin(1)))
	case "items-allOf-typeless-last":
		s = openapi3.NewArraySchema().WithItems(openapi3.NewAllOfSchema(openapi3.NewIntegerSchema(), openapi3.NewSchema().WithMin(1)))
	case "items-allOf-typeless-first":
		s = openapi3.NewArraySchema().WithItems(openapi3.NewAllOfSchema(openapi3.NewSchema().WithMin(1), openapi3.NewIntegerSchema()))
	case "items-anyOf":
		s = openapi3.NewArraySchema().WithItems(openapi3.NewAnyOfSchema(openapi3.NewIntegerSchema(), openapi3.NewBoolSchema()))
	case "allOf-typeless-last":
		s = openapi3.NewAllOfSchema(openapi3.NewIntegerSchema(), openapi3.NewSchema().WithMin(1))
	case "allOf-typeless-first":
		s = openapi3.NewAllOfSchema(openapi3.NewSchema().WithMin(1), openapi3.NewIntegerSchema())
	default:
		s = openapi3.NewAllOfSchema(openapi3.NewIntegerSchema(), openapi3.NewIntegerSchema().WithMin(1))
	}
	p := &openapi3.Parameter{Name: "ids", In: c.In, Style: c.Style, Explode: openapi3.BoolPtr(c.Explode), Required: c.Value != nil, Schema: s.NewRef()}
	op := openapi3.NewOperation()
	op.Parameters = openapi3.Parameters{&openapi3.ParameterRef{Value: p}}
	path := "/p"
	if c.In == "path" {
		path = "/p/{ids}"
	}
	item := &openapi3.PathItem{Get: op}
	doc := &openapi3.T{OpenAPI: "3.0.0", Info: &openapi3.Info{Title: "t", Version: "1"}, Paths: openapi3.NewPaths()}
	route := &routers.Route{Spec: doc, Path: path, PathItem: item, Method: "GET", Operation: op}
	var texts []string
	switch v := c.Value.(type) {
	case []any:
		for _, e := range v {
			texts = append(texts, fmt.Sprint(e))
		}
	case int64:
		texts = []string{fmt.Sprint(v)}
	}
	mk := func() *openapi3filter.RequestValidationInput {
		req := httptest.NewRequest("GET", "/p", nil)
		in := &openapi3filter.RequestValidationInput{Request: req, Route: route, Options: &openapi3filter.Options{SkipSettingDefaults: true}}
		if c.Value == nil {
			return in
		}
		sep := ","
		switch c.Style {
		case "pipeDelimited":
			sep = "|"
		case "spaceDelimited":
			sep = " "
		}
		joined := ""
		for i, t := range texts {
			if i > 0 {
				joined += sep
			}
			joined += t
		}
		switch c.In {
		case "query":
			q := url.Values{}
			if c.Explode && len(texts) > 1 {
				for _, t := range texts {
					q.Add("ids", t)
				}
			} else {
				q.Set("ids", joined)
			}
			req.URL.RawQuery = q.Encode()
		case "header":
			req.Header.Set("ids", joined)
		case "cookie":
			req.AddCookie(&http.Cookie{Name: "ids", Value: joined})
		case "path":
			if c.Style == "label" {
				joined = "." + joined
			}
			in.PathParams = map[string]string{"ids": joined}
		}
		return in
	}
	var val any
	var found bool
	var err error
	if pn := catchPanic(func() { val, found, err = openapi3filter.VerifDecodeStyledParameter(p, mk()) }); pn != nil {
		return "composition:panic", fmt.Sprint(pn)
	}
	if c.Value == nil {
		if err != nil || found || !isNilish(val) {
			return "composition:absent-parameter-not-reported-absent", fmt.Sprintf("%#v found=%v err=%v", val, found, err)
		}
		return "", ""
	}
	switch {
	case err != nil:
		return "composition:serialised-value-is-an-error", err.Error()
	case !reflect.DeepEqual(val, c.Value):
		return "composition:decoded-value-differs", fmt.Sprintf("got %#v want %#v", val, c.Value)
	case !found:
		return "composition:serialised-value-not-found", ""
	}
	var verr error
	if pn := catchPanic(func() { verr = openapi3filter.ValidateParameter(context.Background(), mk(), p) }); pn != nil {
		return "composition:panic", fmt.Sprint(pn)
	}
	if verr != nil {
		return "composition:valid-parameter-rejected", verr.Error()
	}
	return "", ""
}

// ---- a required parameter of the path item next to an operation parameter whose name differs by case only ----
func runCaseVariants() (sig, detail string) {
	for _, in := range []string{"query", "cookie"} {
		item := &openapi3.PathItem{Parameters: openapi3.Parameters{{Value: &openapi3.Parameter{Name: "Limit", In: in, Required: true, Schema: openapi3.NewIntegerSchema().NewRef()}}}}
		op := openapi3.NewOperation()
		op.Parameters = openapi3.Parameters{{Value: &openapi3.Parameter{Name: "limit", In: in, Schema: openapi3.NewIntegerSchema().NewRef()}}}
		op.Responses = openapi3.NewResponses()
		item.Get = op
		doc := &openapi3.T{OpenAPI: "3.0.0", Info: &openapi3.Info{Title: "t", Version: "1"}, Paths: openapi3.NewPaths()}
		route := &routers.Route{Spec: doc, Path: "/p", PathItem: item, Method: "GET", Operation: op}
		req := httptest.NewRequest("GET", "/p", nil)
		if in == "query" {
			req.URL.RawQuery = "limit=5"
		} else {
			req.AddCookie(&http.Cookie{Name: "limit", Value: "5"})
		}
		err := openapi3filter.ValidateRequest(context.Background(), &openapi3filter.RequestValidationInput{Request: req, Route: route})
		if err == nil || !strings.Contains(err.Error(), "Limit") {
			return "case-variant:required-parameter-not-reported-missing:" + in, fmt.Sprint(err)
		}
	}
	// the same name in another location is another parameter: a required path-level parameter is not
	// overridden by an operation parameter that only shares its name
	locs := []string{"query", "header", "cookie"}
	for _, pathLevel := range locs {
		for _, opLevel := range locs {
			if pathLevel == opLevel {
				continue
			}
			item := &openapi3.PathItem{Parameters: openapi3.Parameters{{Value: &openapi3.Parameter{Name: "version", In: pathLevel, Required: true, Schema: openapi3.NewIntegerSchema().WithMin(1).NewRef()}}}}
			op := openapi3.NewOperation()
			op.Parameters = openapi3.Parameters{{Value: &openapi3.Parameter{Name: "version", In: opLevel, Schema: openapi3.NewIntegerSchema().NewRef()}}}
			op.Responses = openapi3.NewResponses()
			item.Get = op
			doc := &openapi3.T{OpenAPI: "3.0.0", Info: &openapi3.Info{Title: "t", Version: "1"}, Paths: openapi3.NewPaths()}
			route := &routers.Route{Spec: doc, Path: "/p", PathItem: item, Method: "GET", Operation: op}
			for _, carried := range []string{"", "0", "abc", "3"} {
				req := httptest.NewRequest("GET", "/p", nil)
				set := func(in, v string) {
					switch in {
					case "query":
						q := req.URL.Query()
						q.Set("version", v)
						req.URL.RawQuery = q.Encode()
					case "header":
						req.Header.Set("version", v)
					default:
						req.AddCookie(&http.Cookie{Name: "version", Value: v})
					}
				}
				set(opLevel, "7")
				if carried != "" {
					set(pathLevel, carried)
				}
				err := openapi3filter.ValidateRequest(context.Background(), &openapi3filter.RequestValidationInput{Request: req, Route: route})
				if (err == nil) != (carried == "3") {
					return "case-variant:same-name-in-another-location:" + pathLevel + "-vs-" + opLevel, fmt.Sprintf("required path-level %s parameter version (integer, minimum 1) carried as %q next to an operation-level %s parameter version: %v", pathLevel, carried, opLevel, err)
				}
			}
		}
	}
	return "", ""
}
