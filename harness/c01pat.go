package main

// C01, the rewriting of pattern escapes (openapi3.intoGoRegexp through the hook VerifIntoGoRegexp)
// against Model/Pattern.v: a pattern is built from units (plain character, escape pair, code point
// escape), so that the judge can hold the code's output against the unit-wise specification of
// Proofs/PatternProofs.v (into_go_units) whenever the unit list is the ECMA reading of its text.

import (
	"fmt"
	"strings"

	"github.com/getkin/kin-openapi/openapi3"
)

type PUnit struct {
	Kind string `json:"kind"` // lit | esc | code
	Text string `json:"text"` // lit, esc: one byte; code: four bytes
}

type PatCase struct {
	Units []PUnit `json:"units"`
}

func (p *PatCase) text() string {
	var b strings.Builder
	for _, u := range p.Units {
		switch u.Kind {
		case "esc":
			b.WriteString(`\` + u.Text)
		case "code":
			b.WriteString(`\u` + u.Text)
		default:
			b.WriteString(u.Text)
		}
	}
	return b.String()
}

func coqAscii(c byte) string { return fmt.Sprintf("(ascii_of_N %d)", c) }

func patCoq(p *PatCase, goOut string) string {
	us := make([]string, len(p.Units))
	for i, u := range p.Units {
		t := u.Text + "????"
		switch u.Kind {
		case "esc":
			us[i] = "UEsc " + coqAscii(t[0])
		case "code":
			us[i] = fmt.Sprintf("UCode %s %s %s %s", coqAscii(t[0]), coqAscii(t[1]), coqAscii(t[2]), coqAscii(t[3]))
		default:
			us[i] = "ULit " + coqAscii(t[0])
		}
	}
	return fmt.Sprintf("mkPat %s %s %s", coqList(us), coqStr(p.text()), coqStr(goOut))
}

func runPat(p *PatCase) string { return openapi3.VerifIntoGoRegexp(p.text()) }

func patDirected() []PatCase {
	lit := func(s string) (out []PUnit) {
		for i := 0; i < len(s); i++ {
			out = append(out, PUnit{"lit", s[i : i+1]})
		}
		return
	}
	cat := func(parts ...[]PUnit) PatCase {
		var c PatCase
		for _, p := range parts {
			c.Units = append(c.Units, p...)
		}
		return c
	}
	code := func(h string) []PUnit { return []PUnit{{"code", h}} }
	esc := func(e string) []PUnit { return []PUnit{{"esc", e}} }
	return []PatCase{
		cat(lit("^h"), code("00e9"), lit("llo$")), cat(lit("^h"), code("00E9"), lit("llo$")), cat(lit("^"), code("0041"), code("0042"), lit("+$")),
		cat(lit("["), code("00e0"), lit("-"), code("00ff"), lit("]")), cat(lit("^"), esc(`\`), lit("u0041$")), cat(lit("a"), esc(`\`), esc(`\`), code("0041")),
		cat(esc("u"), lit("00")), cat(esc("u"), lit("00g1")), cat(esc("u"), lit("004")), cat(esc("d"), code("abcd"), esc("w")), cat(lit("u0041")), cat(),
		cat(esc("u"), esc("u"), code("ABCD"), lit("0")), cat(code("FFFF"), lit("F")), cat(lit("^"), esc("x"), lit("{0041}$")), cat(esc(`\`), esc("u"), lit("z")),
		// readings that are not the ECMA reading of their text (the judge then only compares the model with the code)
		cat(esc("u"), lit("0041")), cat(lit(`\`), lit("u0041")), cat(code("00g9")), cat(lit("a"), lit(`\`)),
	}
}

func patRandom(r *Rng) PatCase {
	var c PatCase
	for k := r.Intn(8); k >= 0; k-- {
		switch r.Intn(10) {
		case 0, 1, 2, 3:
			c.Units = append(c.Units, PUnit{"lit", Pick(r, []string{"a", "b", "u", "0", "4", "1", "e", "9", "^", "$", "[", "]", "x", "{", "}", "A", "F", "f", "g", "-", "+", "."})})
		case 4, 5:
			c.Units = append(c.Units, PUnit{"esc", Pick(r, []string{`\`, "u", "u", "d", "x", "w", ".", "U"})})
		case 6, 7, 8:
			c.Units = append(c.Units, PUnit{"code", Pick(r, []string{"0041", "00e9", "00E9", "1f60", "abcd", "ABCD", "0000", "fFfF"})})
		default:
			// four characters that may or may not be hexadecimal digits, as plain characters
			for _, ch := range Pick(r, []string{"0041", "00g9", "004", "zzzz"}) {
				c.Units = append(c.Units, PUnit{"lit", string(ch)})
			}
		}
	}
	return c
}
