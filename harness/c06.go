package main

import (
	"context"
	"encoding/json"
	"errors"
	"fmt"
	"io"
	"net/http"
	"net/http/httptest"
	"os"
	"sort"
	"strings"

	"github.com/getkin/kin-openapi/openapi3"
	"github.com/getkin/kin-openapi/openapi3filter"
	"github.com/getkin/kin-openapi/routers"
)

type C06Case struct {
	Content  map[string]*GSchema `json:"content"` // nil map = no content declared; nil schema = media type without schema
	Required bool                `json:"required"`
	CT       string              `json:"ct"`
	Body     string              `json:"body"`
	Multi    bool                `json:"multi"`
	ExclRO   bool                `json:"excl_ro"`
	// Go-side configuration only: default-setting left on (the library's default).  Such cases carry
	// defaults on read-only properties only, which a request reading must not apply (and does not
	// validate), so the model - which does not inject defaults - answers for them unchanged.
	Defaults bool `json:"defaults,omitempty"`
	// "": httptest.NewRequest over a strings.Reader; "reader": http.NewRequest over a reader of unknown type
	// (ContentLength stays 0, which means unknown, with a body that is there)
	BodyVia string `json:"body_via,omitempty"`
}

type C06Obs struct {
	Class    int    `json:"class"`
	Kind     int    `json:"kind"`
	Reason   string `json:"reason,omitempty"`
	Selected string `json:"selected"`
	Panic    string `json:"panic,omitempty"`
}

func runC06(c *C06Case) C06Obs {
	var o C06Obs
	rb := openapi3.NewRequestBody().WithRequired(c.Required)
	keyOf := map[*openapi3.MediaType]string{}
	if c.Content != nil {
		rb.Content = openapi3.Content{}
		for mt, g := range c.Content {
			m := openapi3.NewMediaType()
			if g != nil {
				m.Schema = g.ToOpenAPI().NewRef()
			}
			rb.Content[mt] = m
			keyOf[m] = mt
		}
	}
	if m := rb.Content.Get(c.CT); m != nil {
		o.Selected = keyOf[m]
	}
	op := openapi3.NewOperation()
	op.RequestBody = &openapi3.RequestBodyRef{Value: rb}
	item := &openapi3.PathItem{Post: op}
	doc := &openapi3.T{OpenAPI: "3.0.0", Info: &openapi3.Info{Title: "t", Version: "1"}, Paths: openapi3.NewPaths()}
	doc.Paths.Set("/b", item)
	route := &routers.Route{Spec: doc, Path: "/b", PathItem: item, Method: "POST", Operation: op}
	req := httptest.NewRequest("POST", "/b", strings.NewReader(c.Body))
	if c.BodyVia == "reader" && c.Body != "" {
		half := len(c.Body) / 2
		req, _ = http.NewRequest("POST", "/b", io.MultiReader(strings.NewReader(c.Body[:half]), strings.NewReader(c.Body[half:])))
	}
	if c.CT != "" {
		req.Header.Set("Content-Type", c.CT)
	}
	in := &openapi3filter.RequestValidationInput{Request: req, Route: route,
		Options: &openapi3filter.Options{MultiError: c.Multi, ExcludeReadOnlyValidations: c.ExclRO, SkipSettingDefaults: !c.Defaults}}
	var err error
	if p := catchPanic(func() { err = openapi3filter.ValidateRequestBody(context.Background(), in, rb) }); p != nil {
		o.Panic = fmt.Sprint(p)
		o.Class = 2
		return o
	}
	if err != nil {
		o.Class = 1
		var re *openapi3filter.RequestError
		if errors.As(err, &re) {
			o.Reason = re.Reason
			switch {
			case errors.Is(re.Err, openapi3filter.ErrInvalidRequired):
				o.Kind = 1
			case strings.HasPrefix(re.Reason, "header Content-Type has unexpected value"):
				o.Kind = 2
			case re.Reason == "failed to decode request body":
				o.Kind = 3
			case strings.HasPrefix(re.Reason, "doesn't match schema"):
				o.Kind = 4
			default:
				o.Kind = 99
			}
		} else {
			o.Kind = 98
		}
	}
	return o
}

func c06Coq(c *C06Case, o *C06Obs) string {
	mts := make([]string, 0, len(c.Content))
	for mt := range c.Content {
		mts = append(mts, mt)
	}
	sort.Strings(mts)
	body, bodyOK := c08ParseJSON(c.Body)
	var comp, mat, fmts, cterms []string
	for _, mt := range mts {
		g := c.Content[mt]
		ms := "None"
		if g != nil {
			ms = "(Some " + g.Coq() + ")"
			for _, val := range []any{body, c.Body} {
				sc := SCase{Schema: g, Value: val}
				a, b, f := schemaOracles(&sc)
				comp, mat, fmts = append(comp, a...), append(mat, b...), append(fmts, f...)
			}
		}
		cterms = append(cterms, fmt.Sprintf("(%s, mkMedia %s)", coqStr(mt), ms))
	}
	bodyTerm := "None"
	if bodyOK {
		bodyTerm = "(Some " + coqJSON(body) + ")"
	}
	return fmt.Sprintf("mkC06 (mkBOpts %s %s) %s %s %s %s %s %s %s %s %d%%N %d%%N %s",
		coqBool(c.Multi), coqBool(c.ExclRO), coqBool(c.Required), coqList(cterms), coqStr(c.CT), coqStr(c.Body), bodyTerm,
		coqList(comp), coqList(mat), coqList(fmts), o.Class, o.Kind, coqStr(o.Selected))
}

func c06BodySchema(r *Rng) *GSchema {
	if r.Chance(12) {
		return nil
	}
	if r.Chance(35) {
		return randSchema(r, 2, SchemaGenOpts{ReadOnly: true})
	}
	g := &GSchema{HasTypes: true, Types: []string{"object"}, Props: map[string]*GSchema{}}
	for _, k := range []string{"a", "b", "c"} {
		if r.Chance(70) {
			p := randSchema(r, 1, SchemaGenOpts{})
			switch r.Intn(4) {
			case 0:
				p.ReadOnly = true
			case 1:
				p.WriteOnly = true
			}
			g.Props[k] = p
			if r.Chance(45) {
				g.Required = append(g.Required, k)
			}
		}
	}
	if r.Chance(20) {
		g.ApHas = bp(false)
	}
	return g
}

// roDefaults puts a default on read-only properties (at any depth below properties / items)
func roDefaults(r *Rng, g *GSchema) {
	if g == nil {
		return
	}
	for _, k := range sortedKeys(g.Props) {
		p := g.Props[k]
		if p == nil {
			continue
		}
		if p.ReadOnly && r.Chance(80) {
			if v := valueFor(r, p, 1); v != nil {
				p.Default = v
			}
		}
		roDefaults(r, p)
	}
	roDefaults(r, g.Items)
}

func c06Random(r *Rng) C06Case {
	c := C06Case{Required: r.Bool(), Multi: r.Chance(30), ExclRO: r.Chance(30)}
	if r.Chance(92) {
		c.Content = map[string]*GSchema{}
		k := 1 + r.Intn(3)
		for j := 0; j < k; j++ {
			c.Content[Pick(r, c08Keys)] = c06BodySchema(r)
		}
	}
	c.CT = Pick(r, c08CTs)
	if r.Chance(15) {
		c.BodyVia = "reader"
	}
	if !c.ExclRO && r.Chance(30) {
		c.Defaults = true
		for _, ck := range sortedKeys(c.Content) {
			roDefaults(r, c.Content[ck])
		}
	}
	var target *GSchema
	for _, ck := range sortedKeys(c.Content) {
		if g := c.Content[ck]; g != nil {
			target = g
		}
	}
	val := valueFor(r, target, 2)
	if r.Chance(35) {
		val = mutateValue(r, val)
	}
	b, _ := json.Marshal(normJSON(val))
	c.Body = string(b)
	switch r.Intn(12) {
	case 0:
		c.Body = ""
	case 1:
		c.Body = `{"a":`
	case 2:
		c.Body = "plain text"
	case 3:
		// a JSON value followed by something else: not a JSON text (white space alone is fine)
		c.Body += Pick(r, []string{" trailing", "{}", " 1", "]", "}", " }", "\n", " \t\n"})
	}
	return c
}

func c06Directed() []C06Case {
	obj := &GSchema{HasTypes: true, Types: []string{"object"}, Required: []string{"id", "name"}, Props: map[string]*GSchema{
		"id": {HasTypes: true, Types: []string{"integer"}, ReadOnly: true}, "name": {HasTypes: true, Types: []string{"string"}},
		"pw": {HasTypes: true, Types: []string{"string"}, WriteOnly: true}}}
	txt := &GSchema{HasTypes: true, Types: []string{"string"}, MaxLen: up(5)}
	content := map[string]*GSchema{"application/json": obj, "text/*": txt, "*/*": nil}
	var out []C06Case
	add := func(ct, body string, f func(c *C06Case)) {
		c := C06Case{Content: content, Required: true, CT: ct, Body: body}
		if f != nil {
			f(&c)
		}
		out = append(out, c)
	}
	add("application/json", `{"name":"n"}`, nil)
	add("application/json", `{"name":"n","id":1}`, nil)
	add("application/json", `{"name":"n","id":1}`, func(c *C06Case) { c.ExclRO = true })
	add("application/json", `{"name":"n","id":null}`, nil)
	add("application/json", `{"name":"n","pw":"s"}`, nil)
	add("application/json", `{"id":1}`, nil)
	add("application/json", `{}`, func(c *C06Case) { c.Multi = true })
	add("application/json; charset=utf-8", `{"name":"n"}`, nil)
	add("application/json;charset=utf-8", `{"name":1}`, nil)
	add("application/json ; charset=utf-8", `{"name":"n"}`, nil)
	add("application/json; charset=utf-8; profile=demo", `{"name":"n"}`, nil)
	add("application/json; charset=utf-8; profile=demo", `{"name":1}`, nil)
	add("text/plain; a=1; b=2", "abcdefgh", nil)
	add("text/plain", "short", nil)
	add("text/plain", "too long", nil)
	add("text/plain; charset=utf-8", "abc", nil)
	add("text/html", "<p>", nil)
	add("application/xml", "<a/>", nil)
	add("image/png", "xx", nil)
	add("", `{"name":"n"}`, nil)
	add("application", "x", nil)
	add("application/json", "", nil)
	add("application/json", "", func(c *C06Case) { c.Required = false })
	add("application/json", `{"name":`, nil)
	// schemas without any `type`: a read-only member is still a constraint (the schema is not the empty schema)
	roBare := &GSchema{Props: map[string]*GSchema{"createdAt": {ReadOnly: true}, "n": {}}}
	roWrap := &GSchema{HasTypes: true, Types: []string{"object"}, Props: map[string]*GSchema{"meta": roBare, "name": {HasTypes: true, Types: []string{"string"}}}}
	roAllOf := &GSchema{AllOf: []*GSchema{{HasTypes: true, Types: []string{"object"}}, {Props: map[string]*GSchema{"createdAt": {ReadOnly: true}}}}}
	for _, sc := range []*GSchema{roBare, roWrap, roAllOf} {
		sc := sc
		for _, body := range []string{`{"createdAt":"x"}`, `{"n":1}`, `{"meta":{"createdAt":"x"},"name":"n"}`, `{"meta":{"n":1}}`, `{}`} {
			add("application/json", body, func(c *C06Case) { c.Content = map[string]*GSchema{"application/json": sc} })
		}
	}
	add("application/json", `{"name":"n"}`, func(c *C06Case) { c.Content = nil })
	add("application/json", `{"name":"n"}`, func(c *C06Case) { c.Content = map[string]*GSchema{} })
	add("application/json", `{"name":"n"}`, func(c *C06Case) { c.Content = map[string]*GSchema{"application/*": obj} })
	add("application/hal+json", `{"name":"n"}`, func(c *C06Case) { c.Content = map[string]*GSchema{"application/*": obj} })
	add("application/json", `{"name":"n"}`, func(c *C06Case) { c.Content = map[string]*GSchema{"application/json; charset=utf-8": obj} })
	add("application/json; charset=utf-8", `{"name":1}`, func(c *C06Case) {
		c.Content = map[string]*GSchema{"application/json; charset=utf-8": nil, "application/json": obj}
	})
	// default-setting on: a read-only property with a default is neither filled in nor demanded
	objD := &GSchema{HasTypes: true, Types: []string{"object"}, Required: []string{"id", "name"}, Props: map[string]*GSchema{
		"id": {HasTypes: true, Types: []string{"integer"}, ReadOnly: true, Default: 7.0}, "name": {HasTypes: true, Types: []string{"string"}},
		"st": {HasTypes: true, Types: []string{"string"}, ReadOnly: true, Default: "new"}}}
	for _, body := range []string{`{"name":"n"}`, `{"name":"n","id":1}`, `{"name":"n","st":"x"}`, `{}`, `{"name":1}`} {
		for _, multi := range []bool{false, true} {
			body, multi := body, multi
			add("application/json", body, func(c *C06Case) {
				c.Content = map[string]*GSchema{"application/json": objD}
				c.Defaults, c.Multi = true, multi
			})
		}
	}
	// default-setting on and the declared media type spelled with parameters: the body is re-encoded
	// after a default was filled in, under the media type and not under the header's text
	objL := &GSchema{HasTypes: true, Types: []string{"object"}, Props: map[string]*GSchema{
		"name": {HasTypes: true, Types: []string{"string"}}, "lang": {HasTypes: true, Types: []string{"string"}, Default: "en"}}}
	for _, ct := range []string{"application/json; charset=utf-8", "application/json;charset=UTF-8", "application/json; profile=x", "application/json"} {
		for _, body := range []string{`{"name":"n"}`, `{"name":"n","lang":"fr"}`, `{"name":1}`} {
			ct, body := ct, body
			add(ct, body, func(c *C06Case) {
				c.Content = map[string]*GSchema{"application/json": objL}
				c.Defaults = true
			})
		}
	}
	return out
}

func init() {
	runners["C06"] = func(seed uint64, n int, outDir string, replay string) {
		var cases []C06Case
		if replay != "" {
			cases = loadReplayCases[C06Case](replay)
		} else {
			cases = append(loadCorpus[C06Case]("C06"), c06Directed()...)
			r := NewRng(seed)
			for i := 0; i < n; i++ {
				cases = append(cases, c06Random(r))
			}
		}
		meta := &Meta{Property: "C06", Seed: seed, Histogram: map[string]int{}, Shard: 500,
			Rule: "directed media-type / presence / read-only table + seeded random content maps (exact keys, with parameters, type/*, */*) x Content-Type strings x JSON and text bodies aimed at the schema then mutated; plus (Go side) flat objects of primitives and arrays encoded as application/x-www-form-urlencoded and multipart/form-data bodies - every property present / some absent / texts not of the declared type / undeclared fields, with and without required and additionalProperties: false - whose verdict is compared with the one the fields determine (disagreements are named by their cause) x options; non-trivial = a media type with a schema is selected; distinct by JSON of the case"}
		seen := map[string]bool{}
		var terms []string
		for i := range cases {
			c := &cases[i]
			o := runC06(c)
			terms = append(terms, c06Coq(c, &o))
			meta.Cases = append(meta.Cases, map[string]any{"input": c, "go": o})
			key, _ := json.Marshal(c)
			if o.Selected != "" && c.Content[o.Selected] != nil && !seen[string(key)] {
				seen[string(key)] = true
				meta.Distinct++
			}
			meta.Histogram[fmt.Sprintf("class=%d", o.Class)]++
			meta.Histogram[fmt.Sprintf("kind=%d", o.Kind)]++
			meta.Histogram["selected="+o.Selected]++
		}
		if replay == "" {
			fr := NewRng(seed ^ 0xf0f0)
			for _, fc := range formCases(fr, n/6) {
				fc := fc
				sig, detail := runForm(&fc)
				meta.Histogram["form "+fc.Enc]++
				if sig != "" {
					meta.Histogram["oracle:"+sig]++
					meta.GoViolation = append(meta.GoViolation, map[string]any{"signature": sig, "cases": []any{fc}, "go_observation": detail, "judgement": "form body on the Go side: " + sig + " " + detail})
				}
			}
		}
		if replay == "" {
			meta.Histogram["form multipart transfer-encoded parts"]++
			if sig, detail := runFormTransferEncoding(); sig != "" {
				meta.GoViolation = append(meta.GoViolation, map[string]any{"signature": sig, "cases": []any{map[string]string{"body": "multipart/form-data with a quoted-printable part"}}, "go_observation": detail, "judgement": sig + " " + detail})
			}
		}
		if replay == "" {
			meta.Histogram["form urlencoded arrays under an Encoding Object (style x explode)"] += 10
			for _, v := range runFormEncodingStyles() {
				meta.GoViolation = append(meta.GoViolation, map[string]any{"signature": v[0], "cases": []any{map[string]string{"body": v[1]}}, "go_observation": v[1], "judgement": v[0] + " " + v[1]})
			}
		}
		// urlencoded forms against the model of the urlencoded decoder (meta.Cases: the plain cases, then these)
		var fterms []string
		if replay == "" {
			fr2 := NewRng(seed ^ 0xf0f1)
			for _, fc := range formCases(fr2, n/4) {
				fc := fc
				if fc.Enc != "urlencoded" {
					continue
				}
				fo := runFormDecode(&fc)
				meta.Cases = append(meta.Cases, map[string]any{"input": map[string]any{"urlencoded_form": fc}, "go": fo})
				fterms = append(fterms, formCoq(&fc, &fo))
				meta.Histogram["form/model cases"]++
				if fo.Err != "" {
					meta.Histogram["form/model decoder errors"]++
				}
			}
		}
		meta.NCases = len(cases)
		var off1, off2 []int
		var f2 []string
		meta.Files, off1 = writeCasesAt(outDir, "cases", "From KV Require Import Model.Base Model.Json Model.Schema Model.Lookup Model.Response Model.Body Exec.C06Exec.", "c06case", "judge", terms, meta.Shard, 0)
		f2, off2 = writeCasesAt(outDir, "form", "From KV Require Import Model.Base Model.Json Model.Schema Model.Request Model.ParamCodec Model.FormBody Proofs.FormProofs Exec.C06FormExec.", "c06form", "judge_form", fterms, meta.Shard, len(terms))
		meta.Files = append(meta.Files, f2...)
		meta.Offsets = append(off1, off2...)
		// the serialisation method an Encoding Object stands for, against enc_method (Model/FormBody.v)
		if replay == "" {
			var eterms []string
			tr, fa := true, false
			for _, style := range []string{"", "form", "spaceDelimited", "pipeDelimited", "deepObject"} {
				for _, ex := range []*bool{nil, &tr, &fa} {
					sm := (&openapi3.Encoding{Style: style, Explode: ex}).SerializationMethod()
					exs, exj := "None", any(nil)
					if ex != nil {
						exs, exj = "(Some "+coqBool(*ex)+")", *ex
					}
					meta.Cases = append(meta.Cases, map[string]any{"input": map[string]any{"encoding_object": map[string]any{"style": style, "explode": exj}}, "go": map[string]any{"style": sm.Style, "explode": sm.Explode}})
					eterms = append(eterms, fmt.Sprintf("mkEnc %s %s %s %s", coqStr(style), exs, coqStr(sm.Style), coqBool(sm.Explode)))
				}
			}
			f3, off3 := writeCasesAt(outDir, "enc", "From KV Require Import Model.Base Model.FormBody Exec.C06FormExec.", "c06enc", "judge_enc", eterms, meta.Shard, len(terms)+len(fterms))
			meta.Files = append(meta.Files, f3...)
			meta.Offsets = append(meta.Offsets, off3...)
			meta.Histogram["encoding object methods"] = len(eterms)
		}
		writeMeta(outDir, meta)
		fmt.Fprintf(os.Stderr, "C06: %d cases (+%d forms)\n", len(cases), len(fterms))
	}
}
