package main

import (
	"bytes"
	"context"
	"encoding/json"
	"errors"
	"fmt"
	"io"
	"net/http"
	"net/http/httptest"
	"os"
	"sort"
	"strconv"
	"strings"

	"github.com/getkin/kin-openapi/openapi3"
	"github.com/getkin/kin-openapi/openapi3filter"
	"github.com/getkin/kin-openapi/routers"
)

type C13Param struct {
	In      string   `json:"in"`
	Name    string   `json:"name"`
	Explode *bool    `json:"explode"`
	Schema  *GSchema `json:"schema"` // carries the default
	Present bool     `json:"present"`
	Value   string   `json:"value"`
	// PathLevel: declared on the path item only (still in effect).  Shadow: the path item declares a
	// parameter with the same name and location and this schema, which the operation-level one overrides.
	PathLevel bool     `json:"path_level,omitempty"`
	Shadow    *GSchema `json:"shadow,omitempty"`
}

type C13Case struct {
	Params      []C13Param `json:"params"`
	BodySchema  *GSchema   `json:"body_schema"`
	Body        string     `json:"body"` // "" = no body
	CT          string     `json:"ct"`
	Skip        bool       `json:"skip_defaults"`
	ExclRO      bool       `json:"excl_ro"`
	Security    [][]string `json:"security"`             // requirements (scheme names); "undeclared" is not declared
	AuthOK      []string   `json:"auth_ok"`              // schemes the callback accepts
	AuthReads   bool       `json:"auth_reads"`           // the callback consumes the request body
	AuthSwaps   bool       `json:"auth_swaps,omitempty"` // ... and then replaces input.Request by a copy carrying a context value (req.WithContext)
	OtherBranch []string   `json:"other_branch"`         // member names that only a non-matching oneOf/anyOf branch would add
	// the request's GetBody: "" none (as for a server-side request), "ok" replays the body, "fails" returns an error (a body that cannot be replayed)
	GetBody string `json:"get_body,omitempty"`
}

type C13Obs struct {
	Valid       bool                `json:"valid"`
	Err         string              `json:"err,omitempty"`
	BodyAfter   string              `json:"body_after"`
	QueryAfter  map[string][]string `json:"query_after"`
	HeaderAfter map[string][]string `json:"header_after"`
	CookieAfter map[string]string   `json:"cookie_after"`
	Violations  []string            `json:"violations,omitempty"`
	Panic       string              `json:"panic,omitempty"`

	// for harness/c13param.go: the request as received, every cookie value after validation
	q0, h0, ck0All, cookieAll map[string][]string
}

func cookiesAll(req *http.Request) map[string][]string {
	out := map[string][]string{}
	for _, c := range req.Cookies() {
		out[c.Name] = append(out[c.Name], c.Value)
	}
	return out
}

func (c *C13Case) build() (*routers.Route, func() *http.Request) {
	doc := &openapi3.T{OpenAPI: "3.0.0", Info: &openapi3.Info{Title: "t", Version: "1"}, Paths: openapi3.NewPaths()}
	doc.Components = &openapi3.Components{SecuritySchemes: openapi3.SecuritySchemes{}}
	for _, n := range []string{"s1", "s2"} {
		doc.Components.SecuritySchemes[n] = &openapi3.SecuritySchemeRef{Value: openapi3.NewSecurityScheme().WithType("apiKey").WithIn("header").WithName("X-" + n)}
	}
	op := openapi3.NewOperation()
	op.Responses = openapi3.NewResponses()
	if c.Security != nil {
		s := c07Requirements(c.Security)
		op.Security = &s
	}
	var itemParams openapi3.Parameters
	for _, p := range c.Params {
		pr := &openapi3.ParameterRef{Value: &openapi3.Parameter{Name: p.Name, In: p.In, Explode: p.Explode, Schema: p.Schema.ToOpenAPI().NewRef()}}
		if p.PathLevel {
			itemParams = append(itemParams, pr)
			continue
		}
		op.Parameters = append(op.Parameters, pr)
		if p.Shadow != nil {
			itemParams = append(itemParams, &openapi3.ParameterRef{Value: &openapi3.Parameter{Name: p.Name, In: p.In, Explode: p.Explode, Schema: p.Shadow.ToOpenAPI().NewRef()}})
		}
	}
	if c.BodySchema != nil {
		// the body is declared under the media type the request names (without its parameters)
		declared := "application/json"
		if mt := strings.TrimSpace(strings.SplitN(c.CT, ";", 2)[0]); mt != "" {
			declared = mt
		}
		op.RequestBody = &openapi3.RequestBodyRef{Value: openapi3.NewRequestBody().WithContent(openapi3.Content{declared: openapi3.NewMediaType().WithSchema(c.BodySchema.ToOpenAPI())})}
	}
	item := &openapi3.PathItem{Post: op, Parameters: itemParams}
	doc.Paths.Set("/d", item)
	route := &routers.Route{Spec: doc, Path: "/d", PathItem: item, Method: "POST", Operation: op}
	mk := func() *http.Request {
		var req *http.Request
		if c.Body != "" {
			req = httptest.NewRequest("POST", "/d", strings.NewReader(c.Body))
			req.Header.Set("Content-Type", c.CT)
			switch c.GetBody {
			case "ok":
				// bodies that honour Close: reading one after it was closed fails
				body := c.Body
				req.Body = &closingBody{r: strings.NewReader(body)}
				req.GetBody = func() (io.ReadCloser, error) { return &closingBody{r: strings.NewReader(body)}, nil }
			case "fails":
				req.GetBody = func() (io.ReadCloser, error) { return nil, errors.New("this body cannot be replayed") }
			}
		} else {
			req = httptest.NewRequest("POST", "/d", nil)
		}
		q := req.URL.Query()
		for _, p := range c.Params {
			if !p.Present {
				continue
			}
			switch p.In {
			case "query":
				q.Add(p.Name, p.Value)
			case "header":
				req.Header.Add(p.Name, p.Value)
			case "cookie":
				req.AddCookie(&http.Cookie{Name: p.Name, Value: p.Value})
			}
		}
		req.URL.RawQuery = q.Encode()
		return req
	}
	return route, mk
}

type closingBody struct {
	r      io.Reader
	closed bool
}

func (b *closingBody) Read(p []byte) (int, error) {
	if b.closed {
		return 0, errors.New("read on a closed body")
	}
	return b.r.Read(p)
}
func (b *closingBody) Close() error { b.closed = true; return nil }

func snapshot(req *http.Request) (q, h map[string][]string, ck map[string]string, body string, readable bool) {
	q, h, ck = map[string][]string{}, map[string][]string{}, map[string]string{}
	for k, v := range req.URL.Query() {
		q[k] = append([]string{}, v...)
	}
	for k, v := range req.Header {
		if k != "Cookie" && k != "Content-Type" {
			h[k] = append([]string{}, v...)
		}
	}
	for _, c := range req.Cookies() {
		if _, ok := ck[c.Name]; !ok {
			ck[c.Name] = c.Value
		}
	}
	readable = true
	if req.Body != nil && req.Body != http.NoBody {
		b, err := io.ReadAll(req.Body)
		if err != nil {
			readable = false
		}
		body = string(b)
		req.Body = io.NopCloser(bytes.NewReader(b)) // put it back for the next validation
	}
	return
}

func runC13(c *C13Case) C13Obs {
	var o C13Obs
	route, mk := c.build()
	req := mk()
	q0, h0, ck0, _, _ := snapshot(mk())
	o.q0, o.h0, o.ck0All = q0, h0, cookiesAll(mk())
	opts := &openapi3filter.Options{SkipSettingDefaults: c.Skip, ExcludeReadOnlyValidations: c.ExclRO}
	opts.AuthenticationFunc = func(_ context.Context, ai *openapi3filter.AuthenticationInput) error {
		if c.AuthReads && ai.RequestValidationInput.Request.Body != nil {
			io.ReadAll(ai.RequestValidationInput.Request.Body)
		}
		if c.AuthSwaps {
			type key struct{}
			r0 := ai.RequestValidationInput.Request
			ai.RequestValidationInput.Request = r0.WithContext(context.WithValue(r0.Context(), key{}, "user"))
		}
		for _, n := range c.AuthOK {
			if n == ai.SecuritySchemeName {
				return nil
			}
		}
		return errors.New("denied")
	}
	in := &openapi3filter.RequestValidationInput{Request: req, Route: route, Options: opts}
	var err error
	if p := catchPanic(func() { err = openapi3filter.ValidateRequest(context.Background(), in) }); p != nil {
		o.Panic = fmt.Sprint(p)
		o.Violations = append(o.Violations, "panic")
		return o
	}
	o.Valid = err == nil
	if err != nil {
		catchPanic(func() { o.Err = err.Error() })
	}
	// what is forwarded is the request the input holds when validation returns (a callback may have replaced it)
	req = in.Request
	if strings.Contains(o.Err, "rewriting failed") {
		// a body that was decoded, validated and given its defaults is refused because it cannot be written back
		o.Violations = append(o.Violations, "valid-body-refused-when-a-default-is-set:"+strings.TrimSpace(strings.SplitN(c.CT, ";", 2)[0]))
	}
	var readable bool
	o.cookieAll = cookiesAll(req)
	o.QueryAfter, o.HeaderAfter, o.CookieAfter, o.BodyAfter, readable = snapshot(req)
	// O1: the body can still be read in full
	if c.Body != "" {
		if !readable {
			o.Violations = append(o.Violations, "body-unreadable")
		} else if !o.Valid || c.Skip {
			if o.BodyAfter != c.Body {
				o.Violations = append(o.Violations, "body-changed-without-defaults")
			}
		}
	}
	// O1b: what a rewind (GetBody, as a proxy or a second validation does) returns is the forwarded body, byte for byte
	if c.Body != "" && readable && req.GetBody != nil && c.GetBody != "fails" {
		if rb, err := req.GetBody(); err == nil {
			b, _ := io.ReadAll(rb)
			if string(b) != o.BodyAfter {
				o.Violations = append(o.Violations, "rewound-body-differs-from-forwarded-body")
			}
		}
	}
	// O2: with default-setting skipped the forwarded request is the one received
	if c.Skip || !o.Valid {
		if !o.Valid && !c.Skip {
			// a failed validation may already have populated parameter defaults; the property speaks of the body only
		} else if !sameMulti(q0, o.QueryAfter) || !sameMulti(h0, o.HeaderAfter) || fmt.Sprint(ck0) != fmt.Sprint(o.CookieAfter) {
			o.Violations = append(o.Violations, "skip-defaults-changed-request")
		}
	}
	// O3: the forwarded request validates again and a second validation changes nothing
	if o.Valid {
		in2 := &openapi3filter.RequestValidationInput{Request: req, Route: route, Options: opts}
		var err2 error
		if p := catchPanic(func() { err2 = openapi3filter.ValidateRequest(context.Background(), in2) }); p != nil {
			o.Violations = append(o.Violations, "revalidate-panic")
		} else if err2 != nil {
			catchPanic(func() { o.Err = "second validation: " + err2.Error() })
			o.Violations = append(o.Violations, "revalidate-fails"+c.defaultKinds())
		} else {
			// (the callback may have replaced the request again: what is forwarded is what the input holds now)
			q2, h2, ck2, b2, _ := snapshot(in2.Request)
			paramsSame := sameMulti(q2, o.QueryAfter) && sameMulti(h2, o.HeaderAfter) && fmt.Sprint(ck2) == fmt.Sprint(o.CookieAfter)
			if paramsSame && !sameJSONText(b2, o.BodyAfter) && allOfBeforeOwnDefault(c.BodySchema) {
				// only the body changed, and the schema has the shape of the recorded finding
				o.Violations = append(o.Violations, "second-validation-changes-request:allof-before-own-default")
			} else if !paramsSame || !sameJSONText(b2, o.BodyAfter) {
				o.Violations = append(o.Violations, "second-validation-changes-request"+c.defaultKinds())
			}
		}
		// O3b: the same, when the caller validates again with the very same input object
		if !containsPrefix(o.Violations, "second-validation-changes-request") && !containsPrefix(o.Violations, "revalidate-") {
			in.Request = in2.Request
			q3, h3, ck3, b3, _ := snapshot(in.Request)
			var err3 error
			if p := catchPanic(func() { err3 = openapi3filter.ValidateRequest(context.Background(), in) }); p == nil && err3 == nil {
				q4, h4, ck4, b4, _ := snapshot(in.Request)
				if !sameMulti(q3, q4) || !sameMulti(h3, h4) || fmt.Sprint(ck3) != fmt.Sprint(ck4) || !sameJSONText(b3, b4) {
					// the recorded finding is one cause: the decoded query kept by the input object is reused, so the
					// default of an absent query parameter is appended once more; anything else is another defect
					cause := ""
					if sameMulti(h3, h4) && fmt.Sprint(ck3) == fmt.Sprint(ck4) && sameJSONText(b3, b4) && len(q3) == len(q4) {
						cause = ":query-default-appended-again"
						for k, v4 := range q4 {
							v3 := q3[k]
							if len(v4) == len(v3) {
								if fmt.Sprint(v3) != fmt.Sprint(v4) {
									cause = ""
								}
								continue
							}
							// what was there, followed once more by the values the default stands for (its tail)
							extra := len(v4) - len(v3)
							if extra < 0 || extra > len(v3) || fmt.Sprint(v4[:len(v3)]) != fmt.Sprint(v3) || fmt.Sprint(v4[len(v3):]) != fmt.Sprint(v3[len(v3)-extra:]) {
								cause = ""
							}
						}
					}
					o.Violations = append(o.Violations, "validation-with-the-same-input-object-changes-request"+cause)
				}
			}
		}
		// O4: defaults of a non-matching branch never appear
		if len(c.OtherBranch) > 0 && o.BodyAfter != "" {
			var v any
			if json.Unmarshal([]byte(o.BodyAfter), &v) == nil {
				walkJSON(v, func(x any) {
					if m, ok := x.(map[string]any); ok {
						for _, k := range c.OtherBranch {
							if _, has := m[k]; has {
								o.Violations = append(o.Violations, "unmatched-branch-default:"+k)
							}
						}
					}
				})
			}
		}
		// every absent parameter with a default is present afterwards (unless skipped)
		if !c.Skip {
			for _, p := range c.Params {
				if p.Present || p.Schema.Default == nil {
					continue
				}
				var got bool
				switch p.In {
				case "query":
					_, got = o.QueryAfter[p.Name]
				case "header":
					_, got = o.HeaderAfter[http.CanonicalHeaderKey(p.Name)]
				case "cookie":
					_, got = o.CookieAfter[p.Name]
				}
				kind := ""
				if _, isObj := p.Schema.Default.(map[string]any); isObj {
					kind = ":object-default"
				}
				if !got && kind != "" && c13DefaultIs(p.Schema.Default, o, p) {
					// an exploded object default is carried by its members' names
				} else if !got {
					o.Violations = append(o.Violations, "default-not-populated:"+p.In+kind)
				} else if !c13DefaultIs(p.Schema.Default, o, p) {
					o.Violations = append(o.Violations, "populated-value-is-not-the-default:"+p.In+kind)
				}
			}
		}
	}
	sort.Strings(o.Violations)
	o.Violations = dedup(o.Violations)
	return o
}

// the forwarded request carries exactly the (scalar) default of the parameter in effect, once
func c13DefaultIs(d any, o C13Obs, p C13Param) bool {
	var vals []string
	switch p.In {
	case "query":
		vals = o.QueryAfter[p.Name]
	case "header":
		vals = o.HeaderAfter[http.CanonicalHeaderKey(p.Name)]
	case "cookie":
		vals = []string{o.CookieAfter[p.Name]}
	}
	switch x := d.(type) {
	case string:
		return len(vals) == 1 && vals[0] == x
	case bool:
		return len(vals) == 1 && vals[0] == fmt.Sprint(x)
	case float64:
		if len(vals) != 1 {
			return false
		}
		f, err := strconv.ParseFloat(vals[0], 64)
		return err == nil && f == x
	}
	if arr, ok := d.([]any); ok {
		// an array default: its elements, exploded or joined by a delimiter (the decoder reads it back: the
		// re-validation oracle decides whether the form is the right one)
		var texts []string
		for _, e := range arr {
			if f, isf := e.(float64); isf {
				texts = append(texts, strconv.FormatFloat(f, 'f', -1, 64))
			} else {
				texts = append(texts, fmt.Sprint(e))
			}
		}
		if len(vals) == len(texts) && len(texts) > 1 {
			for i := range vals {
				if vals[i] != texts[i] {
					return false
				}
			}
			return true
		}
		for _, sep := range []string{",", " ", "|"} {
			if len(vals) == 1 && vals[0] == strings.Join(texts, sep) {
				return true
			}
		}
		return false
	}
	if obj, ok := d.(map[string]any); ok {
		// a flat object default: its members as the serialisation method writes them - exploded into the
		// query as member=value, or under the parameter's name as m1,v1,m2,v2 (m1=v1,m2=v2 exploded)
		keys := sortedKeys(obj)
		var flat, pairs []string
		exploded := true
		for _, k := range keys {
			t := c13Text(obj[k])
			flat = append(flat, k, t)
			pairs = append(pairs, k+"="+t)
			if p.In != "query" || len(o.QueryAfter[k]) != 1 || o.QueryAfter[k][0] != t {
				exploded = false
			}
		}
		return exploded || (len(vals) == 1 && (vals[0] == strings.Join(flat, ",") || vals[0] == strings.Join(pairs, ",")))
	}
	return true
}

func containsPrefix(l []string, p string) bool {
	for _, x := range l {
		if strings.HasPrefix(x, p) {
			return true
		}
	}
	return false
}

// which kinds of parameter defaults a case has (part of the finding signature)
func (c *C13Case) defaultKinds() string {
	kinds := map[string]bool{}
	for _, p := range c.Params {
		if p.Present || p.Schema.Default == nil {
			continue
		}
		switch p.Schema.Default.(type) {
		case []any:
			kinds[":array-default-"+p.In] = true
		case map[string]any:
			return ":object-default"
		case float64:
			if f := p.Schema.Default.(float64); f != float64(int64(f)) || f > 1e15 {
				kinds[":float-default"] = true
			}
		}
	}
	for k := range kinds {
		if strings.HasPrefix(k, ":array-default") {
			return ":array-default"
		}
	}
	var ks []string
	for k := range kinds {
		ks = append(ks, k)
	}
	sort.Strings(ks)
	return strings.Join(ks, "")
}

func sameMulti(a, b map[string][]string) bool {
	if len(a) != len(b) {
		return false
	}
	for k, v := range a {
		if strings.Join(v, "\x00") != strings.Join(b[k], "\x00") {
			return false
		}
	}
	return true
}
func sameJSONText(a, b string) bool {
	if a == b {
		return true
	}
	var x, y any
	if json.Unmarshal([]byte(a), &x) != nil || json.Unmarshal([]byte(b), &y) != nil {
		return false
	}
	ja, _ := json.Marshal(x)
	jb, _ := json.Marshal(y)
	return string(ja) == string(jb)
}

func c13Modelled(g *GSchema) bool {
	ok := true
	g.walk(func(s *GSchema) {
		if s.Not != nil || len(s.OneOf) > 0 || len(s.AnyOf) > 0 {
			ok = false
		}
	})
	return ok
}

func c13Coq(c *C13Case, o *C13Obs) (string, bool) {
	if c.BodySchema == nil || c.Body == "" {
		return "", false
	}
	orig, ok1 := c08ParseJSON(c.Body)
	after, ok2 := c08ParseJSON(o.BodyAfter)
	if !ok1 || !ok2 {
		return "", false
	}
	return fmt.Sprintf("mkC13 %s %s %s %s %s %s", coqBool(c.ExclRO), c.BodySchema.Coq(), coqJSON(orig), coqBool(o.Valid && !c.Skip), coqJSON(after), coqBool(c13Modelled(c.BodySchema))), true
}

// ---- generators ----
func c13Obj(r *Rng, depth int) *GSchema {
	g := &GSchema{HasTypes: true, Types: []string{"object"}, Props: map[string]*GSchema{}}
	for _, k := range []string{"a", "b", "c", "n"} {
		if !r.Chance(65) {
			continue
		}
		var p *GSchema
		switch r.Intn(6) {
		case 0, 1:
			p = &GSchema{HasTypes: true, Types: []string{"integer"}}
			if r.Chance(60) {
				p.Default = float64(r.Intn(5))
			}
		case 2:
			p = &GSchema{HasTypes: true, Types: []string{"string"}}
			if r.Chance(60) {
				p.Default = Pick(r, []string{"x", "dflt", ""})
			}
		case 3:
			p = &GSchema{HasTypes: true, Types: []string{"boolean"}}
			if r.Chance(50) {
				p.Default = r.Bool()
			}
		case 4:
			if depth > 0 {
				p = c13Obj(r, depth-1)
				if r.Chance(30) {
					p.Default = map[string]any{}
				}
			} else {
				p = &GSchema{HasTypes: true, Types: []string{"integer"}, Default: 7.0}
			}
		default:
			if depth > 0 {
				p = &GSchema{HasTypes: true, Types: []string{"array"}, Items: c13Obj(r, depth-1)}
			} else {
				p = &GSchema{HasTypes: true, Types: []string{"array"}, Items: &GSchema{HasTypes: true, Types: []string{"integer"}}}
			}
		}
		if r.Chance(15) {
			p.ReadOnly = true
		}
		if r.Chance(10) {
			p.Nullable = true
		}
		g.Props[k] = p
	}
	if r.Chance(20) && depth > 0 {
		// an allOf member about other members (no conflicting re-declaration of a/b/c/n)
		m := c13Obj(r, 0)
		ren := map[string]*GSchema{}
		for k, p := range m.Props {
			ren["m"+k] = p
		}
		m.Props = ren
		m.Ap = nil // an additionalProperties schema here would constrain the members the outer schema declares
		g.AllOf = []*GSchema{m}
	}
	if r.Chance(15) {
		g.Ap = &GSchema{HasTypes: true, Types: []string{"object"}, Props: map[string]*GSchema{"z": {HasTypes: true, Types: []string{"integer"}, Default: 9.0}}}
	}
	if r.Chance(10) {
		// an allOf member that describes the inside of a member which this schema itself declares (and may default)
		o := &GSchema{HasTypes: true, Types: []string{"object"}}
		if r.Chance(70) {
			o.Default = map[string]any{}
		}
		g.Props["o"] = o
		g.AllOf = append(g.AllOf, &GSchema{HasTypes: true, Types: []string{"object"}, Props: map[string]*GSchema{
			"o": {HasTypes: true, Types: []string{"object"}, Props: map[string]*GSchema{"q": {HasTypes: true, Types: []string{"integer"}, Default: 1.0}}}}})
	}
	return g
}

// an allOf member reaches into a member that the schema (or a later allOf member) fills in by default: the
// member's inner defaults are applied on the next validation only (recorded finding)
func hasInnerDefaults(g *GSchema) bool {
	found := false
	if g != nil {
		g.walk(func(s *GSchema) {
			if s != g && s.Default != nil {
				found = true
			}
		})
	}
	return found
}
func allOfBeforeOwnDefault(g *GSchema) bool {
	found := false
	if g == nil {
		return false
	}
	g.walk(func(s *GSchema) {
		for i, m := range s.AllOf {
			for k, mp := range m.Props {
				if !hasInnerDefaults(mp) {
					continue
				}
				if own := s.Props[k]; own != nil && own.Default != nil {
					found = true
				}
				for _, later := range s.AllOf[i+1:] {
					if lp := later.Props[k]; lp != nil && lp.Default != nil {
						found = true
					}
				}
			}
		}
	})
	return found
}

func c13ValueFor(r *Rng, g *GSchema, depth int) any {
	m := map[string]any{}
	for _, k := range sortedKeys(g.Props) {
		p := g.Props[k]
		if p.ReadOnly || !r.Chance(55) {
			continue
		}
		switch {
		case p.HasTypes && p.Types[0] == "object":
			m[k] = c13ValueFor(r, p, depth-1)
		case p.HasTypes && p.Types[0] == "array":
			n := r.Intn(3)
			l := make([]any, n)
			for i := range l {
				if p.Items != nil && p.Items.HasTypes && p.Items.Types[0] == "object" {
					l[i] = c13ValueFor(r, p.Items, depth-1)
				} else {
					l[i] = float64(r.Intn(4))
				}
			}
			m[k] = l
		case p.HasTypes && p.Types[0] == "integer":
			m[k] = float64(r.Intn(9))
		case p.HasTypes && p.Types[0] == "string":
			m[k] = Pick(r, []string{"s", "tt"})
		case p.HasTypes && p.Types[0] == "boolean":
			m[k] = r.Bool()
		}
		if p.Nullable && r.Chance(30) {
			m[k] = nil
		}
	}
	if g.Ap != nil && r.Chance(50) {
		m["extra"] = map[string]any{}
	}
	for _, a := range g.AllOf {
		for k, v := range c13ValueFor(r, a, depth-1).(map[string]any) {
			if _, ok := m[k]; !ok {
				m[k] = v
			}
		}
	}
	return m
}

func c13Random(r *Rng) C13Case {
	c := C13Case{CT: "application/json", Skip: r.Chance(25), ExclRO: r.Chance(20), AuthOK: []string{"s1"}, AuthReads: r.Chance(40)}
	c.AuthSwaps = c.AuthReads && r.Chance(30)
	// parameters
	for _, spec := range []struct{ in, name string }{{"query", "q"}, {"query", "limit"}, {"header", "X-H"}, {"cookie", "ck"}} {
		if !r.Chance(55) {
			continue
		}
		p := C13Param{In: spec.in, Name: spec.name, Present: r.Chance(40)}
		switch r.Intn(8) {
		case 0, 1, 2:
			p.Schema = &GSchema{HasTypes: true, Types: []string{"integer"}}
			if r.Chance(75) {
				p.Schema.Default = float64(r.Intn(50))
			}
			p.Value = "3"
		case 3, 4:
			p.Schema = &GSchema{HasTypes: true, Types: []string{"string"}}
			if r.Chance(75) {
				p.Schema.Default = Pick(r, []string{"asc", "x y", "a&b=c"})
			}
			p.Value = "v"
		case 5:
			p.Schema = &GSchema{HasTypes: true, Types: []string{"boolean"}}
			if r.Chance(75) {
				p.Schema.Default = r.Bool()
			}
			p.Value = "true"
		case 6:
			p.Schema = &GSchema{HasTypes: true, Types: []string{"number"}}
			if r.Chance(75) {
				p.Schema.Default = Pick(r, []float64{1.5, 2, 1e21, 0.1})
			}
			p.Value = "1.5"
		default:
			p.Schema = &GSchema{HasTypes: true, Types: []string{"array"}, Items: &GSchema{HasTypes: true, Types: []string{"integer"}}}
			if r.Chance(75) {
				p.Schema.Default = []any{1.0, 2.0}
			}
			p.Value = "1"
			if spec.in == "query" && r.Chance(50) {
				p.Explode = bp(r.Bool())
			}
		}
		switch r.Intn(6) {
		case 0:
			p.PathLevel = true
		case 1, 2:
			// the same parameter on the path item, with another default (or none)
			sh := *p.Schema
			switch d := p.Schema.Default.(type) {
			case float64:
				sh.Default = d + 1
			case string:
				sh.Default = d + "-path"
			case bool:
				sh.Default = !d
			default:
				sh.Default = nil
			}
			if r.Chance(20) {
				sh.Default = nil
			}
			p.Shadow = &sh
		}
		if p.Present && r.Chance(15) {
			p.Value = "" // carried with an empty text (?q=, an empty header)
		}
		c.Params = append(c.Params, p)
	}
	c.GetBody = Pick(r, []string{"", "", "", "ok", "fails"})
	// body
	if r.Chance(80) {
		c.BodySchema = c13Obj(r, 2)
		if r.Chance(85) {
			b, _ := json.Marshal(c13ValueFor(r, c.BodySchema, 2))
			c.Body = string(b)
			if r.Chance(10) {
				c.Body = `{"a":` // undecodable
			} else if r.Chance(15) {
				// white space around the JSON text (the final newline of a pretty-printed file): part of the bytes received
				c.Body = Pick(r, []string{" ", "\n", "\t\n "})[:1] + c.Body + Pick(r, []string{"\n", " \n", "\r\n"})
			}
		}
		if r.Chance(12) {
			c.CT = Pick(r, []string{"application/problem+json", "application/problem+json", "application/hal+json", "application/vnd.api+json", "application/ld+json", "application/json-patch+json"})
		} else if r.Chance(20) {
			// the declared media type, spelled with parameters
			c.CT = Pick(r, []string{"application/json; charset=utf-8", "application/json;charset=UTF-8", "application/json; profile=x; charset=utf-8"})
		}
	}
	// security
	switch r.Intn(6) {
	case 0:
		c.Security = [][]string{{"undeclared"}, {"s1"}}
	case 1:
		c.Security = [][]string{{"s2"}, {"s1"}}
	case 2:
		c.Security = [][]string{{"s2"}}
	case 3:
		c.Security = [][]string{{"s1", "s2"}, {"undeclared"}}
	case 4:
		c.Security = [][]string{{"s1"}}
	}
	return c
}

func c13Directed() []C13Case {
	intD := func(d float64) *GSchema { return &GSchema{HasTypes: true, Types: []string{"integer"}, Default: d} }
	kind := func(v string) *GSchema { return &GSchema{HasTypes: true, Types: []string{"string"}, Enum: []any{v}} }
	brA := &GSchema{HasTypes: true, Types: []string{"object"}, Required: []string{"kind"}, Props: map[string]*GSchema{"kind": kind("a"), "xa": intD(1)}}
	brB := &GSchema{HasTypes: true, Types: []string{"object"}, Required: []string{"kind"}, Props: map[string]*GSchema{"kind": kind("b"), "yb": intD(2)}}
	// branches that reach into array elements before the discriminating member (sorted after it) fails
	arrOf := func(it *GSchema) *GSchema { return &GSchema{HasTypes: true, Types: []string{"array"}, Items: it} }
	elA := &GSchema{HasTypes: true, Types: []string{"object"}, Props: map[string]*GSchema{"xa": intD(1), "name": {HasTypes: true, Types: []string{"string"}}}}
	elB := &GSchema{HasTypes: true, Types: []string{"object"}, Props: map[string]*GSchema{"yb": intD(2), "name": {HasTypes: true, Types: []string{"string"}}}}
	brA2 := &GSchema{HasTypes: true, Types: []string{"object"}, Required: []string{"zkind"}, Props: map[string]*GSchema{"zkind": kind("a"), "list": arrOf(elA)}}
	brB2 := &GSchema{HasTypes: true, Types: []string{"object"}, Required: []string{"zkind"}, Props: map[string]*GSchema{"zkind": kind("b"), "list": arrOf(elB)}}
	brA3 := &GSchema{HasTypes: true, Types: []string{"object"}, Required: []string{"zkind"}, Props: map[string]*GSchema{"zkind": kind("a"), "list": arrOf(arrOf(elA))}}
	brB3 := &GSchema{HasTypes: true, Types: []string{"object"}, Required: []string{"zkind"}, Props: map[string]*GSchema{"zkind": kind("b"), "list": arrOf(arrOf(elB))}}
	// array items that tell their branch by a member sorted after the defaulted one
	elKA := &GSchema{HasTypes: true, Types: []string{"object"}, Required: []string{"zk"}, Props: map[string]*GSchema{"zk": kind("a"), "xa": intD(1), "name": {HasTypes: true, Types: []string{"string"}}}}
	elKB := &GSchema{HasTypes: true, Types: []string{"object"}, Required: []string{"zk"}, Props: map[string]*GSchema{"zk": kind("b"), "yb": intD(2), "name": {HasTypes: true, Types: []string{"string"}}}}
	var out []C13Case
	for _, skip := range []bool{false, true} {
		out = append(out,
			C13Case{CT: "application/json", Skip: skip, BodySchema: &GSchema{OneOf: []*GSchema{brA2, brB2}}, Body: `{"list":[{"name":"n"},{}],"zkind":"b"}`, OtherBranch: []string{"xa"}},
			C13Case{CT: "application/json", Skip: skip, BodySchema: &GSchema{AnyOf: []*GSchema{brA2, brB2}}, Body: `{"list":[{"name":"n"}],"zkind":"b"}`, OtherBranch: []string{"xa"}},
			C13Case{CT: "application/json", Skip: skip, BodySchema: &GSchema{OneOf: []*GSchema{brB2, brA2}}, Body: `{"list":[{}],"zkind":"a"}`, OtherBranch: []string{"yb"}},
			C13Case{CT: "application/json", Skip: skip, BodySchema: &GSchema{OneOf: []*GSchema{brA3, brB3}}, Body: `{"list":[[{"name":"n"}],[{}]],"zkind":"b"}`, OtherBranch: []string{"xa"}},
			C13Case{CT: "application/json", Skip: skip, BodySchema: arrOf(&GSchema{OneOf: []*GSchema{brA2, brB2}}), Body: `[{"list":[{}],"zkind":"b"}]`, OtherBranch: []string{"xa"}},
			// the value under oneOf / anyOf is itself an array (of objects, of arrays of objects), also nested in an object
			C13Case{CT: "application/json", Skip: skip, BodySchema: &GSchema{OneOf: []*GSchema{arrOf(elKA), arrOf(elKB)}}, Body: `[{"name":"n","zk":"b"},{"zk":"b"}]`, OtherBranch: []string{"xa"}},
			C13Case{CT: "application/json", Skip: skip, BodySchema: &GSchema{AnyOf: []*GSchema{arrOf(elKA), arrOf(elKB)}}, Body: `[{"zk":"b"}]`, OtherBranch: []string{"xa"}},
			C13Case{CT: "application/json", Skip: skip, BodySchema: &GSchema{OneOf: []*GSchema{arrOf(arrOf(elKA)), arrOf(arrOf(elKB))}}, Body: `[[{"zk":"b"}],[]]`, OtherBranch: []string{"xa"}},
			C13Case{CT: "application/json", Skip: skip, BodySchema: &GSchema{HasTypes: true, Types: []string{"object"}, Props: map[string]*GSchema{"jobs": {OneOf: []*GSchema{arrOf(elKB), arrOf(elKA)}}}}, Body: `{"jobs":[{"zk":"a"},{"name":"n","zk":"a"}]}`, OtherBranch: []string{"yb"}},
			C13Case{CT: "application/json", Skip: skip, BodySchema: &GSchema{OneOf: []*GSchema{brA, brB}}, Body: `{"kind":"b"}`, OtherBranch: []string{"xa"}},
			C13Case{CT: "application/json", Skip: skip, BodySchema: &GSchema{OneOf: []*GSchema{brA, brB}}, Body: `{"kind":"a"}`, OtherBranch: []string{"yb"}},
			C13Case{CT: "application/json", Skip: skip, BodySchema: &GSchema{AnyOf: []*GSchema{brA, brB}}, Body: `{"kind":"b"}`, OtherBranch: []string{"xa"}},
			C13Case{CT: "application/json", Skip: skip, BodySchema: &GSchema{HasTypes: true, Types: []string{"object"}, Props: map[string]*GSchema{"inner": {OneOf: []*GSchema{brA, brB}}}}, Body: `{"inner":{"kind":"a"}}`, OtherBranch: []string{"yb"}},
			C13Case{CT: "application/json", Skip: skip, BodySchema: &GSchema{HasTypes: true, Types: []string{"object"}, Props: map[string]*GSchema{"n": intD(5), "o": {HasTypes: true, Types: []string{"object"}, Props: map[string]*GSchema{"m": intD(6)}}}}, Body: `{"o":{}}`},
			C13Case{CT: "application/json", Skip: skip, BodySchema: &GSchema{HasTypes: true, Types: []string{"object"}, Props: map[string]*GSchema{"n": intD(5)}}, Body: `{"n":null}`},
			// an allOf member describing the inside of a member that the schema itself defaults (Props/C13.v: C13_refuted_allof_sees_own_default_later)
			C13Case{CT: "application/json", Skip: skip, Body: `{}`, BodySchema: &GSchema{HasTypes: true, Types: []string{"object"},
				AllOf: []*GSchema{{HasTypes: true, Types: []string{"object"}, Props: map[string]*GSchema{"p": {HasTypes: true, Types: []string{"object"}, Props: map[string]*GSchema{"q": intD(1)}}}}},
				Props: map[string]*GSchema{"p": {HasTypes: true, Types: []string{"object"}, Default: map[string]any{}}}}},
			C13Case{CT: "application/json", Skip: skip, Body: `{"w":{}}`, BodySchema: &GSchema{HasTypes: true, Types: []string{"object"}, Props: map[string]*GSchema{"w": {HasTypes: true, Types: []string{"object"},
				AllOf: []*GSchema{{HasTypes: true, Types: []string{"object"}, Props: map[string]*GSchema{"p": {HasTypes: true, Types: []string{"object"}, Props: map[string]*GSchema{"q": intD(1)}}}}},
				Props: map[string]*GSchema{"p": {HasTypes: true, Types: []string{"object"}, Default: map[string]any{}}}}}}},
			C13Case{CT: "application/json", Skip: skip, BodySchema: &GSchema{HasTypes: true, Types: []string{"object"}, Props: map[string]*GSchema{"n": intD(5)}}, Body: `{"n":1, "k": 1.0}`},
			C13Case{CT: "application/json", Skip: skip, BodySchema: &GSchema{HasTypes: true, Types: []string{"object"}, Props: map[string]*GSchema{"n": intD(5)}}, Body: `{}`, Security: [][]string{{"undeclared"}, {"s1"}}, AuthOK: []string{"s1"}, AuthReads: true},
			C13Case{CT: "application/json", Skip: skip, BodySchema: &GSchema{HasTypes: true, Types: []string{"object"}, Props: map[string]*GSchema{"n": intD(5)}}, Body: `{}`, Security: [][]string{{"s2"}}, AuthOK: []string{"s1"}, AuthReads: true},
			C13Case{CT: "application/problem+json", Skip: skip, BodySchema: &GSchema{HasTypes: true, Types: []string{"object"}, Props: map[string]*GSchema{"n": intD(5)}}, Body: `{}`},
			C13Case{CT: "application/json; charset=utf-8", Skip: skip, BodySchema: &GSchema{HasTypes: true, Types: []string{"object"}, Props: map[string]*GSchema{"n": intD(5)}}, Body: `{}`},
			C13Case{CT: "application/json;charset=UTF-8", Skip: skip, BodySchema: &GSchema{HasTypes: true, Types: []string{"object"}, Props: map[string]*GSchema{"n": intD(5)}}, Body: `{"k":1}`},
			C13Case{CT: "application/json", Skip: skip, Params: []C13Param{{In: "query", Name: "q", Schema: intD(10)}, {In: "header", Name: "X-H", Schema: &GSchema{HasTypes: true, Types: []string{"string"}, Default: "d"}}, {In: "cookie", Name: "ck", Schema: intD(3)}}},
			C13Case{CT: "application/json", Skip: skip, Params: []C13Param{{In: "query", Name: "q", Schema: &GSchema{HasTypes: true, Types: []string{"array"}, Items: &GSchema{HasTypes: true, Types: []string{"integer"}}, Default: []any{1.0, 2.0}}}}},
			C13Case{CT: "application/json", Skip: skip, Params: []C13Param{{In: "query", Name: "q", Explode: bp(true), Schema: &GSchema{HasTypes: true, Types: []string{"array"}, Items: &GSchema{HasTypes: true, Types: []string{"integer"}}, Default: []any{1.0, 2.0}}}}},
			C13Case{CT: "application/json", Skip: skip, Params: []C13Param{{In: "query", Name: "q", Explode: bp(false), Schema: &GSchema{HasTypes: true, Types: []string{"array"}, Items: &GSchema{HasTypes: true, Types: []string{"integer"}}, Default: []any{1.0, 2.0}}}}},
			// defaults whose shortest float text is in exponent form: the forwarded text must still be read as the declared type
			// an object default (deepObject query, exploded form query, header): written so that it reads back
			C13Case{CT: "application/json", Skip: skip, Params: []C13Param{{In: "query", Name: "o", Schema: &GSchema{HasTypes: true, Types: []string{"object"}, Props: map[string]*GSchema{"a": {HasTypes: true, Types: []string{"integer"}}}, Default: map[string]any{"a": 1.0}}}}},
			C13Case{CT: "application/json", Skip: skip, Params: []C13Param{{In: "header", Name: "X-O", Schema: &GSchema{HasTypes: true, Types: []string{"object"}, Props: map[string]*GSchema{"a": {HasTypes: true, Types: []string{"integer"}}}, Default: map[string]any{"a": 1.0}}}}},
			// the same name in another location is another parameter: the path-level header keeps its default
			C13Case{CT: "application/json", Skip: skip, Params: []C13Param{{In: "header", Name: "Version", Schema: intD(2), PathLevel: true}, {In: "query", Name: "Version", Schema: &GSchema{HasTypes: true, Types: []string{"integer"}}, Present: true, Value: "7"}}},
			C13Case{CT: "application/json", Skip: skip, Params: []C13Param{{In: "query", Name: "version", Schema: intD(2), PathLevel: true}, {In: "cookie", Name: "version", Schema: &GSchema{HasTypes: true, Types: []string{"integer"}}, Present: true, Value: "7"}}},
			// a callback that reads the body and then replaces the request by a copy with a context value
			C13Case{CT: "application/json", Skip: skip, BodySchema: &GSchema{HasTypes: true, Types: []string{"object"}, Props: map[string]*GSchema{"n": intD(5)}}, Body: `{"k":1}`, Security: [][]string{{"s1"}}, AuthOK: []string{"s1"}, AuthReads: true, AuthSwaps: true},
			C13Case{CT: "application/json", Skip: skip, BodySchema: &GSchema{HasTypes: true, Types: []string{"object"}, Props: map[string]*GSchema{"n": intD(5)}}, Body: `{"k":1}`, Security: [][]string{{"s2"}, {"s1"}}, AuthOK: []string{"s1"}, AuthReads: true, AuthSwaps: true},
			C13Case{CT: "application/json", Skip: skip, Params: []C13Param{{In: "query", Name: "big", Schema: intD(1000000)}, {In: "header", Name: "X-Big", Schema: intD(123456789)}, {In: "cookie", Name: "cbig", Schema: intD(100000000000)}}},
			C13Case{CT: "application/json", Skip: skip, Params: []C13Param{{In: "query", Name: "ids", Explode: bp(true), Schema: &GSchema{HasTypes: true, Types: []string{"array"}, Items: &GSchema{HasTypes: true, Types: []string{"integer"}}, Default: []any{1000000.0, 2.0}}}}},
			C13Case{CT: "application/json", Skip: skip, Params: []C13Param{{In: "query", Name: "x", Schema: &GSchema{HasTypes: true, Types: []string{"number"}, Default: 1e21}}, {In: "query", Name: "y", Schema: &GSchema{HasTypes: true, Types: []string{"number"}, Default: 0.000001}}}},
			// a path-level parameter next to an operation-level one whose name differs by case only: two parameters, two defaults
			C13Case{CT: "application/json", Skip: skip, Params: []C13Param{{In: "query", Name: "Limit", Schema: intD(7), PathLevel: true}, {In: "query", Name: "limit", Schema: intD(3)}}},
			C13Case{CT: "application/json", Skip: skip, Params: []C13Param{{In: "cookie", Name: "Theme", Schema: intD(7), PathLevel: true}, {In: "cookie", Name: "theme", Schema: intD(3)}}},
			C13Case{CT: "application/json", Skip: skip, Params: []C13Param{{In: "query", Name: "Limit", Schema: intD(7), PathLevel: true}, {In: "query", Name: "limit", Schema: intD(3), Present: true, Value: "4"}}},
		)
	}
	return out
}

func init() {
	runners["C13"] = func(seed uint64, n int, outDir string, replay string) {
		var cases []C13Case
		if replay != "" {
			cases = loadReplayCases[C13Case](replay)
		} else {
			cases = append(loadCorpus[C13Case]("C13"), c13Directed()...)
			r := NewRng(seed)
			for i := 0; i < n; i++ {
				cases = append(cases, c13Random(r))
			}
		}
		meta := &Meta{Property: "C13", Seed: seed, Histogram: map[string]int{}, Shard: 600,
			Rule: "directed oneOf/anyOf/nested/null/security shapes + seeded random operations: 0-4 parameters (query/header/cookie; integer, string, boolean, number, array defaults; present or absent) x object bodies of depth <= 3 with defaults, read-only members, arrays of objects, allOf, additionalProperties x security requirements with undeclared schemes and body-reading callbacks x skip/exclusion options; each case is validated twice; non-trivial = some default exists or the body is present; distinct by JSON of the case"}
		seen := map[string]bool{}
		var terms, pterms []string
		var termIdx, ptermIdx []int
		for i := range cases {
			c := &cases[i]
			o := runC13(c)
			meta.Cases = append(meta.Cases, map[string]any{"input": c, "go": o})
			if t, ok := c13Coq(c, &o); ok {
				terms = append(terms, t)
				termIdx = append(termIdx, i)
			}
			if o.Valid && o.Panic == "" {
				for _, t := range c13ParamTerms(c, o.q0, o.h0, o.ck0All, &o) {
					pterms = append(pterms, t)
					ptermIdx = append(ptermIdx, i)
				}
			}
			key, _ := json.Marshal(c)
			if (c.Body != "" || len(c.Params) > 0) && !seen[string(key)] {
				seen[string(key)] = true
				meta.Distinct++
			}
			meta.Histogram[fmt.Sprintf("valid=%v", o.Valid)]++
			meta.Histogram[fmt.Sprintf("skip=%v", c.Skip)]++
			if o.Valid && o.BodyAfter != c.Body && c.Body != "" {
				meta.Histogram["body_rewritten"]++
			}
			for _, v := range o.Violations {
				meta.Histogram["oracle:"+v]++
				meta.GoViolation = append(meta.GoViolation, map[string]any{"signature": v, "cases": []any{c}, "go_observation": o,
					"judgement": "direct C13 oracle on the Go side: " + v})
			}
		}
		meta.NCases = len(cases)
		// the Coq batch only holds the cases with a decodable body; remap indices through a side table
		files, _ := writeCasesAt(outDir, "cases", "From KV Require Import Model.Base Model.Json Model.Schema Model.Defaults Exec.C13Exec.", "c13case", "judge", terms, meta.Shard, 0)
		meta.Files = files
		meta.IndexMap = termIdx
		if len(pterms) > 0 {
			var off1 []int
			for k := range files {
				off1 = append(off1, k*meta.Shard)
			}
			f2, off2 := writeCasesAt(outDir, "param", "From KV Require Import Model.Base Model.Json Model.Schema Model.Request Model.ParamCodec Model.Defaults Exec.C13ParamExec.", "c13p", "judge_param", pterms, meta.Shard, len(terms))
			meta.Files = append(meta.Files, f2...)
			meta.Offsets = append(off1, off2...)
			meta.IndexMap = append(meta.IndexMap, ptermIdx...)
			meta.Histogram["parameter model comparisons"] = len(pterms)
		}
		writeMeta(outDir, meta)
		fmt.Fprintf(os.Stderr, "C13: %d cases (%d with a body for the model)\n", len(cases), len(terms))
	}
}
