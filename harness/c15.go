package main

// C15: concurrent validations over one loaded document.  The runner starts the same harness built
// with the Go race detector (bin/harness_race) as a child; the child loads valid documents (the
// C10 generator), computes every verdict once sequentially on a fresh load, then runs the same
// operations from 8 goroutines over one shared document and both routers (each goroutine a
// different rotation), and compares the verdicts.  Race reports are read from the detector's log.

import (
	"archive/zip"
	"bytes"
	"context"
	"crypto/sha1"
	"encoding/json"
	"fmt"
	"io"
	"net/http"
	"os"
	"os/exec"
	"path/filepath"
	"reflect"
	"regexp"
	"sort"
	"strings"
	"sync"
	"time"

	"github.com/getkin/kin-openapi/openapi3"
	"github.com/getkin/kin-openapi/openapi3filter"
	"github.com/getkin/kin-openapi/openapi3gen"
	"github.com/getkin/kin-openapi/routers"
	"github.com/getkin/kin-openapi/routers/gorillamux"
	"github.com/getkin/kin-openapi/routers/legacy"
)

type C15Obs struct {
	Skip    string   `json:"skipped,omitempty"`
	Ops     int      `json:"operations"`
	Differs []string `json:"verdict_differs,omitempty"`
	Panics  []string `json:"panics,omitempty"`
}

type c15World struct {
	doc     *openapi3.T
	routers []routers.Router
	pat     *openapi3.Schema // a shared pattern schema, first compiled with the default engine (as T.Validate does)
	fresh   reflect.Type     // a struct type no generator has seen yet (cold type-information cache)
}

var c15TypeCounter int

// a struct type with many fields whose names are new in this process
func c15FreshType() reflect.Type {
	c15TypeCounter++
	var fs []reflect.StructField
	for k := 0; k < 120; k++ {
		t := reflect.TypeOf(0)
		if k%3 == 1 {
			t = reflect.TypeOf("")
		} else if k%3 == 2 {
			t = reflect.TypeOf([]float64{})
		}
		n := fmt.Sprintf("F%dx%d", c15TypeCounter, k)
		fs = append(fs, reflect.StructField{Name: n, Type: t, Tag: reflect.StructTag(fmt.Sprintf(`json:"f%d"`, k))})
	}
	return reflect.StructOf(fs)
}

// a caller-supplied regex engine: case-insensitive
func c15CI(expr string) (openapi3.RegexMatcher, error) { return regexp.Compile("(?i)" + expr) }

// archives of one file each, filled with one character (so that what the decoder returns can be
// recognised whatever padding it adds)
var c15Zips = func() (out []struct {
	archive  []byte
	alphabet string
	size     int
}) {
	for _, f := range []struct {
		ch   string
		size int
	}{{"#", 700}, {"k", 2}, {"z", 300}, {"k", 2}} {
		var b bytes.Buffer
		zw := zip.NewWriter(&b)
		w, _ := zw.Create("f.txt")
		w.Write([]byte(strings.Repeat(f.ch, f.size)))
		zw.Close()
		out = append(out, struct {
			archive  []byte
			alphabet string
			size     int
		}{b.Bytes(), f.ch, f.size})
	}
	return
}()

func c15Load(c *C10Case) *c15World {
	data, _ := json.Marshal(c.Doc)
	doc, err := openapi3.NewLoader().LoadFromData(data)
	if err != nil || doc.Validate(context.Background()) != nil {
		return nil
	}
	w := &c15World{doc: doc, pat: &openapi3.Schema{Type: &openapi3.Types{"string"}, Pattern: "^[a-z]+$"}}
	_ = w.pat.Validate(context.Background())
	w.fresh = c15FreshType()
	if r, e := gorillamux.NewRouter(doc); e == nil {
		w.routers = append(w.routers, r)
	}
	if r, e := legacy.NewRouter(doc); e == nil {
		w.routers = append(w.routers, r)
	}
	return w
}

type c15Gen struct {
	A int                `json:"a"`
	B []string           `json:"b"`
	C map[string]*c15Gen `json:"c"`
	D *c15Base2          `json:"d"`
	E c15ThingRef        `json:"e"`
}

// a type in the shape the generator reads as "a reference or a value" (name ending in Ref, fields Ref and Value)
type c15ThingRef struct {
	Ref   string    `json:"$ref,omitempty"`
	Value *c15Base2 `json:"value,omitempty"`
}
type c15Base2 struct {
	X float64 `json:"x"`
	Y []byte  `json:"y"`
}

func verdictOf(err error) string {
	if err == nil {
		return "ok"
	}
	// accept / reject only: which of several errors is reported first, and how many a multi-error
	// holds, depends on Go's map iteration order even in a single goroutine
	switch err.(type) {
	case *routers.RouteError:
		return "route-error"
	}
	return "rejected"
}

// every operation of a case against a world; one verdict per operation
func c15Run(c *C10Case, w *c15World, rot int) []string {
	var out []string
	n := len(c.Reqs)
	for k := 0; k < n; k++ {
		q := c.Reqs[(k+rot)%n]
		for ri, router := range w.routers {
			v := func() (verdict string) {
				defer func() {
					if r := recover(); r != nil {
						verdict = "panic"
					}
				}()
				req, e := http.NewRequest(q.Method, "http://example.com"+q.Target, strings.NewReader(q.Body))
				if e != nil {
					return "bad-request"
				}
				for hk, vs := range q.Header {
					for _, x := range vs {
						req.Header.Add(hk, x)
					}
				}
				route, pp, err := router.FindRoute(req)
				if err != nil {
					return "find:" + verdictOf(err)
				}
				opts := &openapi3filter.Options{MultiError: q.Multi, AuthenticationFunc: openapi3filter.NoopAuthenticationFunc, IncludeResponseStatus: q.Strict}
				in := &openapi3filter.RequestValidationInput{Request: req, PathParams: pp, Route: route, Options: opts}
				v1 := verdictOf(openapi3filter.ValidateRequest(context.Background(), in))
				rin := &openapi3filter.ResponseValidationInput{RequestValidationInput: in, Status: q.Status, Header: http.Header(q.RHeader),
					Body: io.NopCloser(strings.NewReader(q.RBody)), Options: opts}
				v2 := verdictOf(openapi3filter.ValidateResponse(context.Background(), rin))
				return v1 + " / " + v2
			}()
			out = append(out, fmt.Sprintf("%d.%d %s", (k+rot)%n, ri, v))
		}
	}
	// schema-level operations over the shared components: first use of a pattern, uniqueItems, defaults
	if comps := w.doc.Components; comps != nil {
		for _, name := range sortedKeys(comps.Schemas) {
			if name == "RAny" || name == "RAll" || name == "ROne" {
				continue // VisitJSON recurses without bound on these (recorded under C10)
			}
			s := comps.Schemas[name].Value
			for vi, val := range []any{"abc", 1.0, []any{1.0, 1.0, "a"}, map[string]any{"v": []any{1.0}, "next": map[string]any{}}} {
				err := func() (err error) {
					defer func() {
						if r := recover(); r != nil {
							err = fmt.Errorf("panic")
						}
					}()
					return s.VisitJSON(val, openapi3.MultiErrors())
				}()
				v := "ok"
				if err != nil {
					v = "err"
				}
				out = append(out, fmt.Sprintf("visit %s %d %s", name, vi, v))
			}
		}
	}
	// caller-supplied regex engines: every call gets the verdict of its own engine (known in advance)
	for ei, eng := range []string{"default", "ci", "default", "ci"} {
		for _, val := range []string{"ABC", "abc"} {
			var opts []openapi3.SchemaValidationOption
			if eng == "ci" {
				opts = append(opts, openapi3.SetSchemaRegexCompiler(c15CI))
			}
			got := w.pat.VisitJSON(val, opts...) == nil
			v := "ok"
			if !got {
				v = "err"
			}
			if got != (eng == "ci" || val == "abc") {
				v += " WRONG-FOR-THIS-ENGINE"
			}
			out = append(out, fmt.Sprintf("engine %d %s %s %s", ei, eng, val, v))
		}
	}
	// the opt-in zip body decoder: every archive decodes to its own content, whatever was decoded before
	// or is being decoded next to it (the decoder pads with NUL bytes up to its buffer size: tolerated)
	for zi, z := range c15Zips {
		v, err := openapi3filter.ZipFileBodyDecoder(bytes.NewReader(z.archive), http.Header{"Content-Type": {"application/zip"}}, openapi3.NewStringSchema().NewRef(), nil)
		str, _ := v.(string)
		ok := err == nil && strings.TrimRight(str, "\x00") != "" && strings.Trim(str, z.alphabet+"\x00") == "" && len(strings.TrimRight(str, "\x00")) >= z.size
		line := fmt.Sprintf("zip %d %v", zi, ok)
		if !ok {
			line += " WRONG-FOR-THIS-ENGINE"
		}
		out = append(out, line)
	}
	// schema generation for a type that no generator has seen before this document
	if fr, err := openapi3gen.NewSchemaRefForValue(reflect.New(w.fresh).Interface(), openapi3.Schemas{}); err != nil || fr == nil {
		out = append(out, "gen-fresh err")
	} else {
		b, _ := json.Marshal(fr)
		out = append(out, "gen-fresh "+fmt.Sprint(len(fr.Value.Properties))+" "+fmt.Sprintf("%x", sha1.Sum(b)))
	}
	// schema generation for one Go type
	ref, err := openapi3gen.NewSchemaRefForValue(&c15Gen{}, openapi3.Schemas{})
	if err != nil || ref == nil {
		out = append(out, "gen err")
	} else {
		b, _ := json.Marshal(ref)
		out = append(out, "gen "+string(b))
	}
	sort.Strings(out)
	return out
}

func c15One(c *C10Case) C15Obs {
	var o C15Obs
	shared := c15Load(c)
	if shared == nil {
		o.Skip = "not a valid document"
		return o
	}
	// validation reads the document, it never writes it: its JSON is the same afterwards
	before, _ := shared.doc.MarshalJSON()
	const G = 8
	got := make([][]string, G)
	var wg sync.WaitGroup
	start := make(chan struct{})
	// the concurrent generations start from a cold type information cache (hook under build tag verif)
	openapi3gen.VerifResetTypeInfos()
	for g := 0; g < G; g++ {
		wg.Add(1)
		go func(g int) {
			defer wg.Done()
			<-start
			got[g] = c15Run(c, shared, g)
		}(g)
	}
	close(start)
	wg.Wait()
	// the reference: the same operations run alone, afterwards, against the same document and routers
	// (a fresh load may route differently: the legacy router's trie depends on map iteration order)
	want := c15Run(c, shared, 0)
	o.Ops = len(want)
	if after, _ := shared.doc.MarshalJSON(); string(after) != string(before) {
		o.Differs = append(o.Differs, "the document was changed by validating against it")
	}
	for _, x := range want {
		if strings.HasSuffix(x, "WRONG-FOR-THIS-ENGINE") {
			o.Differs = append(o.Differs, x)
		}
	}
	for g := 0; g < G; g++ {
		if len(got[g]) != len(want) {
			o.Differs = append(o.Differs, "count")
			continue
		}
		for i := range want {
			if got[g][i] != want[i] {
				o.Differs = append(o.Differs, want[i]+" => "+got[g][i])
			}
			if strings.HasSuffix(got[g][i], "panic") {
				o.Panics = append(o.Panics, got[g][i])
			}
		}
	}
	o.Differs = dedup(o.Differs)
	if len(o.Differs) > 5 {
		o.Differs = o.Differs[:5]
	}
	return o
}

var raceFrame = regexp.MustCompile(`github\.com/getkin/kin-openapi/([\w/]+\.(?:\(\*?\w+\)\.)?\w+)`)

// signatures of the race reports in the detector's log files
func raceSignatures(dir string) map[string]string {
	sigs := map[string]string{}
	files, _ := filepath.Glob(filepath.Join(dir, "race.log.*"))
	for _, f := range files {
		b, _ := os.ReadFile(f)
		for _, rep := range strings.Split(string(b), "==================") {
			if !strings.Contains(rep, "DATA RACE") {
				continue
			}
			var parts []string
			for _, blk := range strings.Split(rep, "\n\n") {
				head := strings.SplitN(strings.TrimSpace(blk), "\n", 2)[0]
				if !(strings.Contains(head, "rite at") || strings.Contains(head, "ead at")) {
					continue
				}
				kind := "write"
				if strings.Contains(strings.ToLower(head), "read at") {
					kind = "read"
				}
				fn := "?"
				for _, m := range raceFrame.FindAllStringSubmatch(blk, -1) {
					if !strings.Contains(m[1], "verifharness") {
						fn = m[1]
						break
					}
				}
				parts = append(parts, kind+":"+fn)
			}
			sort.Strings(parts)
			sig := "race " + strings.Join(dedup(parts), " | ")
			if _, ok := sigs[sig]; !ok {
				if len(rep) > 3000 {
					rep = rep[:3000]
				}
				sigs[sig] = rep
			}
		}
	}
	return sigs
}

func init() {
	runners["C15child"] = func(seed uint64, n int, outDir string, replay string) {
		cases := loadReplayCases[C10Case](replay)
		// an application that installed its own uniqueItems checker and restored the default the
		// documented way (nil) before serving traffic is a legal configuration of the library
		openapi3.RegisterArrayUniqueItemsChecker(nil)
		for i := int(seed); i < len(cases); i++ {
			fmt.Printf("start %d\n", i)
			os.Stdout.Sync()
			wd := time.AfterFunc(60*time.Second, func() {
				fmt.Printf("done %d {\"verdict_differs\":[\"hang\"]}\n", i)
				os.Stdout.Sync()
				os.Exit(3)
			})
			o := c15One(&cases[i])
			wd.Stop()
			b, _ := json.Marshal(o)
			fmt.Printf("done %d %s\n", i, b)
			os.Stdout.Sync()
		}
	}
	runners["C15"] = func(seed uint64, n int, outDir string, replay string) {
		var cases []C10Case
		if replay != "" {
			cases = loadReplayCases[C10Case](replay)
		} else {
			cases = loadCorpus[C10Case]("C15")
			r := NewRng(seed)
			for len(cases) < n {
				c := c10Random(r)
				if c10UsesCycle(&c) {
					continue // unbounded recursion (recorded under C10): a fatal error of the whole child
				}
				cases = append(cases, c)
			}
		}
		meta := &Meta{Property: "C15", Seed: seed, Histogram: map[string]int{}, Shard: 1000,
			Rule: "the valid documents and hostile traffic of C10; per document every operation (FindRoute + ValidateRequest + ValidateResponse through both routers, VisitJSON of 4 values against every component schema in multi-error mode, VisitJSON of a shared pattern schema under the default and under a caller-supplied case-insensitive regex engine - each call must get the verdict of its own engine -, schema generation for one recursive Go type) is run once sequentially on a fresh load, then from 8 goroutines in 8 rotations over one shared document under the Go race detector; verdict classes compared, race reports read from the detector log; non-trivial = the document is valid; distinct by JSON of the case"}
		self, _ := os.Executable()
		raceBin := filepath.Join(filepath.Dir(self), "harness_race")
		if _, err := os.Stat(raceBin); err != nil {
			raceBin = self // no detector: verdict comparison only
			meta.Histogram["no race detector binary"] = 1
		}
		if old, _ := filepath.Glob(filepath.Join(outDir, "race.log.*")); old != nil {
			for _, f := range old {
				os.Remove(f) // reports of an earlier run
			}
		}
		// one child over all cases (the detector slows execution ~10x; cases are small)
		fn := filepath.Join(outDir, "c15_cases.json")
		b, _ := json.Marshal(map[string]any{"cases": cases})
		must(os.WriteFile(fn, b, 0o644))
		res := map[int]string{}
		for start := 0; start < len(cases); {
			cmd := exec.Command(raceBin, "-prop", "C15child", "-seed", fmt.Sprint(start), "-out", outDir, "-replay", fn)
			cmd.Env = append(os.Environ(), "GORACE=log_path="+filepath.Join(outDir, "race.log")+" halt_on_error=0 history_size=2")
			outb, _ := cmd.Output()
			last, finished := start-1, true
			for _, line := range strings.Split(string(outb), "\n") {
				var i int
				if k, _ := fmt.Sscanf(line, "start %d", &i); k == 1 {
					last, finished = i, false
				} else if strings.HasPrefix(line, "done ") {
					parts := strings.SplitN(line, " ", 3)
					fmt.Sscan(parts[1], &i)
					if len(parts) == 3 {
						res[i] = parts[2]
					}
					finished = true
				}
			}
			if !finished && last >= 0 {
				res[last] = `{"verdict_differs":["fatal"]}`
			}
			if last < start {
				break
			}
			start = last + 1
		}
		os.Remove(fn)
		seen := map[string]bool{}
		for i := range cases {
			c := &cases[i]
			var o C15Obs
			json.Unmarshal([]byte(res[i]), &o)
			meta.Cases = append(meta.Cases, map[string]any{"input": c, "go": o})
			if o.Skip != "" {
				meta.Histogram["skipped:"+o.Skip]++
				continue
			}
			key, _ := json.Marshal(c)
			if !seen[string(key)] {
				seen[string(key)] = true
				meta.Distinct++
			}
			meta.Histogram["documents"]++
			meta.Histogram["operations per goroutine"] += o.Ops
			if len(o.Differs) > 0 {
				meta.Histogram["verdict differs"]++
				meta.GoViolation = append(meta.GoViolation, map[string]any{"signature": "verdict-differs", "cases": []any{c}, "go_observation": o,
					"judgement": "a concurrent call returned another verdict than the same call run alone: " + strings.Join(o.Differs, "; ")})
			}
		}
		if replay == "" {
			c15OrderIndependence(meta)
		}
		for sig, rep := range raceSignatures(outDir) {
			meta.Histogram[sig]++
			meta.GoViolation = append(meta.GoViolation, map[string]any{"signature": sig, "cases": []any{}, "go_observation": map[string]any{"report": rep},
				"judgement": "the Go race detector reported: " + sig})
		}
		meta.NCases = len(cases)
		meta.Files, meta.Offsets = writeCasesInterned(outDir, "cases", "From KV Require Import Model.Base Exec.C10Exec.", "N", "judge_C10", nil, 1000)
		writeMeta(outDir, meta)
		fmt.Fprintf(os.Stderr, "C15: %d cases\n", len(cases))
	}
}

// "every call returns the verdict it returns when run alone": the verdict of one validation does not depend on
// which other schemas of the document were validated before it (in any order a schedule may produce)
func c15OrderIndependence(meta *Meta) {
	text := `{"openapi":"3.0.3","info":{"title":"t","version":"1"},"paths":{},"components":{"schemas":{` +
		`"Node":{"additionalProperties":{"$ref":"#/components/schemas/List"}},` +
		`"List":{"additionalProperties":{"$ref":"#/components/schemas/Node"},"items":{"type":"string"}},` +
		`"A":{"properties":{"b":{"$ref":"#/components/schemas/B"}}},"B":{"properties":{"a":{"$ref":"#/components/schemas/A"}},"minProperties":1},` +
		`"P":{"allOf":[{"$ref":"#/components/schemas/Q"}]},"Q":{"properties":{"p":{"$ref":"#/components/schemas/P"}},"maxProperties":1}}}}`
	type step struct {
		schema string
		value  any
	}
	steps := []step{{"List", map[string]any{"k": map[string]any{"k": []any{"s"}}}}, {"Node", map[string]any{"k": []any{1.0}}}, {"Node", map[string]any{"k": []any{"s"}}},
		{"B", map[string]any{}}, {"A", map[string]any{"b": map[string]any{}}}, {"A", map[string]any{"b": map[string]any{"a": map[string]any{}}}},
		{"Q", map[string]any{"p": map[string]any{"p": map[string]any{}, "x": 1.0}}}, {"P", map[string]any{"p": map[string]any{}, "x": 1.0}}}
	verdict := func(doc *openapi3.T, st step) string {
		var err error
		if p := catchPanic(func() { err = doc.Components.Schemas[st.schema].Value.VisitJSON(st.value) }); p != nil {
			return "panic"
		}
		if err != nil {
			return "refused"
		}
		return "accepted"
	}
	load := func() *openapi3.T {
		d, err := openapi3.NewLoader().LoadFromData([]byte(text))
		if err != nil {
			return nil
		}
		return d
	}
	// alone: each step on a document of its own
	alone := make([]string, len(steps))
	for i, st := range steps {
		if d := load(); d != nil {
			alone[i] = verdict(d, st)
		}
	}
	// every rotation of the steps, forwards and backwards, on one shared document
	for rot := 0; rot < len(steps); rot++ {
		for _, back := range []bool{false, true} {
			d := load()
			if d == nil {
				return
			}
			for k := 0; k < len(steps); k++ {
				i := (rot + k) % len(steps)
				if back {
					i = (rot - k + 2*len(steps)) % len(steps)
				}
				meta.Histogram["order-independence validations"]++
				if got := verdict(d, steps[i]); got != alone[i] {
					b, _ := json.Marshal(steps[i].value)
					meta.GoViolation = append(meta.GoViolation, map[string]any{"signature": "verdict-depends-on-earlier-validations", "cases": []any{map[string]any{"schema": steps[i].schema, "value": string(b), "rotation": rot, "backwards": back}},
						"go_observation": fmt.Sprintf("alone: %s; after %d other validations on the same document: %s", alone[i], k, got),
						"judgement":      "every call returns the verdict it returns when run alone"})
					return
				}
			}
		}
	}
}
