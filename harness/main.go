package main

import (
	"flag"
	"fmt"
	"os"
)

type runner func(seed uint64, n int, outDir string, replay string)

var runners = map[string]runner{}

func main() {
	prop := flag.String("prop", "", "property id")
	seed := flag.Uint64("seed", 1, "seed")
	n := flag.Int("n", 500, "number of random cases")
	out := flag.String("out", "", "output directory")
	replay := flag.String("replay", "", "replay file: run only the cases it holds")
	flag.Parse()
	r, ok := runners[*prop]
	if !ok {
		fmt.Fprintln(os.Stderr, "unknown property", *prop)
		os.Exit(2)
	}
	must(os.MkdirAll(*out, 0o755))
	r(*seed, *n, *out, *replay)
}
