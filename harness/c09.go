package main

import (
	"context"
	"encoding/json"
	"errors"
	"fmt"
	"net/http"
	"net/url"
	"os"
	"regexp"
	"sort"
	"strings"

	"github.com/getkin/kin-openapi/openapi3"
	"github.com/getkin/kin-openapi/routers"
	"github.com/getkin/kin-openapi/routers/gorillamux"
	"github.com/getkin/kin-openapi/routers/legacy"
)

type C09Path struct {
	Template string   `json:"template"`
	Methods  []string `json:"methods"`
}
type C09Var struct {
	Default string   `json:"default"`
	Enum    []string `json:"enum,omitempty"`
}
type C09Server struct {
	URL  string            `json:"url"`
	Vars map[string]C09Var `json:"variables,omitempty"`
}
type C09Case struct {
	Paths  []C09Path `json:"paths"`
	Method string    `json:"method"`
	Path   string    `json:"path"` // without servers: the request URL; with servers: what is left after the matched server (filled in by strip)
	// documents with servers: the request URL as sent (absolute for absolute servers)
	Servers []C09Server `json:"servers,omitempty"`
	URL     string      `json:"url,omitempty"`
	NoMatch bool        `json:"no_server_matches,omitempty"`
	// a case about server matching alone (harness/c09srv.go); the fields above are then unused
	Srv *C09SrvCase `json:"server_matching,omitempty"`
}

// every URL prefix a server stands for when its variables take their default or an enum value
func (sv *C09Server) prefixes() []string {
	out := []string{sv.URL}
	names := make([]string, 0, len(sv.Vars))
	for n := range sv.Vars {
		names = append(names, n)
	}
	sort.Strings(names)
	for _, n := range names {
		vals := append([]string{sv.Vars[n].Default}, sv.Vars[n].Enum...)
		var next []string
		for _, p := range out {
			for _, v := range vals {
				next = append(next, strings.ReplaceAll(p, "{"+n+"}", v))
			}
		}
		out = next
	}
	return out
}

// the URLs a server stands for, as a pattern: a variable with an enum ranges over it (and its
// default), a variable without one over any non-empty text free of '/'
func (sv *C09Server) pattern() *regexp.Regexp {
	var b strings.Builder
	rest := strings.TrimSuffix(sv.URL, "/")
	for rest != "" {
		i := strings.IndexByte(rest, '{')
		if i < 0 {
			b.WriteString(regexp.QuoteMeta(rest))
			break
		}
		b.WriteString(regexp.QuoteMeta(rest[:i]))
		j := strings.IndexByte(rest, '}')
		v := sv.Vars[rest[i+1:j]]
		if len(v.Enum) == 0 {
			b.WriteString(`[^/]+`)
		} else {
			var alts []string
			for _, e := range append([]string{v.Default}, v.Enum...) {
				alts = append(alts, regexp.QuoteMeta(e))
			}
			b.WriteString("(?:" + strings.Join(alts, "|") + ")")
		}
		rest = rest[j+1:]
	}
	return regexp.MustCompile("^" + b.String() + "((?:/.*)?)$")
}

// the specification of server matching: a declared server whose pattern the URL starts with (at a
// segment boundary); what follows it is the path the templates are matched against
func (c *C09Case) strip() {
	if len(c.Servers) == 0 {
		return
	}
	c.NoMatch, c.Path = true, ""
	// the URL as both routers read it: re-encoded by net/url
	seen := c.URL
	if u, err := url.Parse(c.URL); err == nil {
		// the query (an empty one included: "...?") is not part of what servers and templates are matched against
		v := *u
		v.RawQuery, v.ForceQuery = "", false
		seen = v.String()
	}
	for i := range c.Servers {
		if m := c.Servers[i].pattern().FindStringSubmatch(seen); m != nil {
			c.NoMatch, c.Path = false, m[1]
			if c.Path == "" {
				c.Path = "/"
			}
			return
		}
	}
}

type C09RObs struct {
	Kind     int               `json:"kind"` // 0 found, 1 not found, 2 method not allowed, 3 panic, 4 other error
	Template string            `json:"template,omitempty"`
	Method   string            `json:"method,omitempty"`
	Params   map[string]string `json:"params,omitempty"`
	Err      string            `json:"err,omitempty"`
	// the route names a server under which the request does not lie
	ServerBad string `json:"route_server_does_not_match,omitempty"`
}
type C09Obs struct {
	Legacy  C09RObs `json:"legacy"`
	Gorilla C09RObs `json:"gorilla"`
	Build   string  `json:"build_error,omitempty"`
}

var varRe = regexp.MustCompile(`\{([^{}]+)\}`)
var mixRe = regexp.MustCompile(`[^/]\{|\}[^/]`)

func c09Doc(c *C09Case) *openapi3.T {
	doc := &openapi3.T{OpenAPI: "3.0.0", Info: &openapi3.Info{Title: "t", Version: "1"}, Paths: openapi3.NewPaths()}
	for _, p := range c.Paths {
		item := &openapi3.PathItem{}
		for _, m := range varRe.FindAllStringSubmatch(p.Template, -1) {
			item.Parameters = append(item.Parameters, &openapi3.ParameterRef{Value: &openapi3.Parameter{Name: strings.TrimSuffix(m[1], "*"), In: "path", Required: true, Schema: openapi3.NewStringSchema().NewRef()}})
		}
		for _, m := range p.Methods {
			op := openapi3.NewOperation()
			desc := "ok"
			op.Responses = openapi3.NewResponses()
			op.Responses.Set("200", &openapi3.ResponseRef{Value: &openapi3.Response{Description: &desc}})
			item.SetOperation(m, op)
		}
		doc.Paths.Set(p.Template, item)
	}
	for _, sv := range c.Servers {
		s := &openapi3.Server{URL: sv.URL}
		for n, v := range sv.Vars {
			if s.Variables == nil {
				s.Variables = map[string]*openapi3.ServerVariable{}
			}
			s.Variables[n] = &openapi3.ServerVariable{Default: v.Default, Enum: v.Enum}
		}
		doc.Servers = append(doc.Servers, s)
	}
	return doc
}

func c09Find(r routers.Router, c *C09Case) C09RObs {
	var o C09RObs
	target := c.Path
	if len(c.Servers) > 0 {
		target = c.URL
	}
	u, err := url.Parse(target)
	if err != nil {
		o.Kind, o.Err = 4, err.Error()
		return o
	}
	req := &http.Request{Method: c.Method, URL: u, Header: http.Header{}, Host: u.Host}
	var route *routers.Route
	var params map[string]string
	var ferr error
	if p := catchPanic(func() { route, params, ferr = r.FindRoute(req) }); p != nil {
		o.Kind, o.Err = 3, fmt.Sprint(p)
		return o
	}
	if ferr != nil {
		o.Err = ferr.Error()
		var re *routers.RouteError
		switch {
		case errors.Is(ferr, routers.ErrPathNotFound) || (errors.As(ferr, &re) && re.Reason == routers.ErrPathNotFound.Error()):
			o.Kind = 1
		case errors.Is(ferr, routers.ErrMethodNotAllowed) || (errors.As(ferr, &re) && re.Reason == routers.ErrMethodNotAllowed.Error()):
			o.Kind = 2
		default:
			o.Kind = 4
		}
		return o
	}
	o.Template, o.Method, o.Params = route.Path, route.Method, params
	if len(c.Servers) > 0 {
		// the values of server variables are reported too: the property speaks of the template's parameters
		o.Params = map[string]string{}
		for _, m := range varRe.FindAllStringSubmatch(route.Path, -1) {
			n := strings.TrimSuffix(m[1], "*")
			if v, ok := params[n]; ok {
				o.Params[n] = v
			}
		}
	}
	if route.Operation == nil {
		o.Kind, o.Err = 4, "route without operation"
	}
	if route.Server != nil && len(c.Servers) > 1 {
		// "the matched server": when the route names one, the request lies under it - and under no other declared
		// server does it lie as well (the generated servers never extend one another)
		plain := *u
		plain.RawQuery, plain.ForceQuery, plain.Fragment = "", false, ""
		if _, _, ok := route.Server.MatchRawURL(plain.String()); !ok {
			o.ServerBad = fmt.Sprintf("the route's server is %s, the request is %s", route.Server.URL, plain.String())
		}
	}
	return o
}

func runC09(c *C09Case) C09Obs {
	var o C09Obs
	doc := c09Doc(c)
	if err := doc.Validate(context.Background()); err != nil {
		o.Build = "validate: " + err.Error()
		return o
	}
	lr, err := legacy.NewRouter(doc)
	if err != nil {
		o.Build = "legacy: " + err.Error()
		return o
	}
	gr, err := gorillamux.NewRouter(doc)
	if err != nil {
		o.Build = "gorilla: " + err.Error()
		return o
	}
	o.Legacy = c09Find(lr, c)
	o.Gorilla = c09Find(gr, c)
	return o
}

func c09Params(m map[string]string) string {
	keys := make([]string, 0, len(m))
	for k := range m {
		keys = append(keys, k)
	}
	sort.Strings(keys)
	out := make([]string, len(keys))
	for i, k := range keys {
		out[i] = fmt.Sprintf("(%s, %s)", coqStr(k), coqStr(m[k]))
	}
	return coqList(out)
}

func c09Coq(c *C09Case, o *C09Obs) string {
	ps := append([]C09Path{}, c.Paths...)
	sort.Slice(ps, func(i, j int) bool { return ps[i].Template < ps[j].Template })
	var paths []string
	for _, p := range ps {
		ms := append([]string{}, p.Methods...)
		sort.Strings(ms)
		paths = append(paths, fmt.Sprintf("(%s, %s)", coqStr(p.Template), coqStrList(ms)))
	}
	u, _ := url.Parse(c.Path)
	dec, raw := c.Path, c.Path
	if u != nil {
		dec, raw = u.Path, u.EscapedPath()
	}
	if len(c.Servers) > 0 {
		// with servers the legacy router matches the URL text (escaped), as gorilla/mux does; what
		// follows the server is already in that form (and may start with "//": not to be parsed as a URL)
		dec, raw = c.Path, c.Path
	}
	return fmt.Sprintf("mkC09 %s %s %s %s %d%%N %s %s %d%%N %s %s %s", coqList(paths), coqStr(c.Method), coqStr(dec), coqStr(raw),
		o.Legacy.Kind, coqStr(o.Legacy.Template), c09Params(o.Legacy.Params),
		o.Gorilla.Kind, coqStr(o.Gorilla.Template), c09Params(o.Gorilla.Params), coqBool(c.NoMatch))
}

var c09Lits = []string{"a", "b", "items", "users", "v1", "x-1", "a.b"}
var c09Vars = []string{"id", "x", "name", "k"}
var c09Queries = []string{"?", "?a=1", "?a=1&b=%2F", "?x=/y?z"}
var c09Methods = []string{"GET", "POST", "PUT", "DELETE"}
var c09Vals = []string{"1", "abc", "b", "a", "items", "x y", "%41", "a.b", "42", "é"}

// segments that hold a variable next to literal text (gorilla/mux: prefix([^/]+)suffix)
var c09MixSegs = []string{"report.{ext}", "v{ver}", "{id}.json", "item-{k}-x"}

func c09Template(r *Rng) string {
	n := 1 + r.Intn(4)
	var segs []string
	used := map[string]bool{}
	for i := 0; i < n; i++ {
		if r.Chance(6) {
			m := Pick(r, c09MixSegs)
			v := varRe.FindStringSubmatch(m)[1]
			if !used[v] {
				used[v] = true
				segs = append(segs, m)
				continue
			}
		}
		if r.Chance(40) {
			v := Pick(r, c09Vars)
			if used[v] {
				segs = append(segs, Pick(r, c09Lits))
				continue
			}
			used[v] = true
			segs = append(segs, "{"+v+"}")
		} else {
			segs = append(segs, Pick(r, c09Lits))
		}
	}
	t := "/" + strings.Join(segs, "/")
	if r.Chance(8) {
		t += "/"
	}
	return t
}

// the template with variables renamed away: two templates with the same shape collide in both routers
func c09Shape(t string) string { return varRe.ReplaceAllString(t, "{}") }

func c09Random(r *Rng) C09Case {
	var c C09Case
	n := 1 + r.Intn(5)
	shapes := map[string]bool{}
	for i := 0; i < n; i++ {
		t := c09Template(r)
		if r.Chance(35) && len(c.Paths) > 0 {
			// a sibling sharing a prefix with an earlier template
			base := c.Paths[r.Intn(len(c.Paths))].Template
			cut := strings.LastIndex(strings.TrimSuffix(base, "/"), "/")
			if cut >= 0 {
				if r.Bool() {
					t = base[:cut] + "/" + Pick(r, c09Lits)
				} else if !strings.Contains(base[:cut], "{z}") {
					t = base[:cut] + "/{z}"
				}
			}
		}
		if t == "" || shapes[c09Shape(strings.TrimSuffix(t, "/"))] {
			continue
		}
		shapes[c09Shape(strings.TrimSuffix(t, "/"))] = true
		var ms []string
		for _, m := range c09Methods {
			if r.Chance(45) {
				ms = append(ms, m)
			}
		}
		if len(ms) == 0 {
			ms = []string{"GET"}
		}
		c.Paths = append(c.Paths, C09Path{t, ms})
	}
	if len(c.Paths) == 0 {
		c.Paths = []C09Path{{"/a", []string{"GET"}}}
	}
	// request: fill a template, then maybe perturb
	p := Pick(r, c.Paths)
	c.Method = Pick(r, p.Methods)
	path := varRe.ReplaceAllStringFunc(p.Template, func(string) string { return url.PathEscape(Pick(r, c09Vals)) })
	switch r.Intn(12) {
	case 0:
		c.Method = Pick(r, c09Methods)
	case 1:
		c.Method = Pick(r, []string{"FOO", "PATCH", "HEAD", "get"})
	case 2:
		path += "/"
	case 3:
		path += "/" + Pick(r, c09Vals)
	case 4:
		if i := strings.LastIndex(path, "/"); i > 0 {
			path = path[:i]
		}
	case 5:
		path = varRe.ReplaceAllString(p.Template, "") // empty segment values
	case 6:
		path = "/" + Pick(r, c09Lits)
	case 7:
		path = p.Template // the template text itself as a URL
	}
	c.Path = path
	if r.Chance(35) {
		c09AddServers(r, &c)
		if r.Chance(25) && !strings.Contains(c.URL, "?") {
			c.URL += Pick(r, c09Queries) // a query, or the bare marker of an empty one
		}
	}
	return c
}

var c09ServerPool = []C09Server{
	{URL: "/base"}, {URL: "/api/v1/"}, {URL: "https://api.example.com"}, {URL: "https://api.example.com/v1"}, {URL: "http://example.com:8080/x"},
	{URL: "https://{tenant}.example.com/base", Vars: map[string]C09Var{"tenant": {Default: "acme", Enum: []string{"acme", "beta"}}}},
	{URL: "https://api.example.com/{version}/store", Vars: map[string]C09Var{"version": {Default: "v1", Enum: []string{"v1", "v2"}}}},
	{URL: "https://api.example.com/s/{region}", Vars: map[string]C09Var{"region": {Default: "eu"}}},
	{URL: "{scheme}://api.example.com/s", Vars: map[string]C09Var{"scheme": {Default: "https", Enum: []string{"http", "https"}}}},
	{URL: "http://example.com:{port}/p", Vars: map[string]C09Var{"port": {Default: "8443"}}},
	{URL: "https://example.com/my%20api"}, {URL: "https://example.com/a%2Fb/v1"},
}

// one or two declared servers; the request goes to one of their prefixes (or, sometimes, elsewhere)
func c09AddServers(r *Rng, c *C09Case) {
	first := Pick(r, c09ServerPool)
	c.Servers = []C09Server{first}
	if r.Chance(40) {
		second := Pick(r, c09ServerPool)
		// relative and absolute servers are not mixed: the routers differ on a relative server met by an absolute URL
		// nor servers of which one's URLs extend the other's (the routers disagree on which of two matching servers counts)
		overlap := first.pattern().MatchString(strings.TrimSuffix(second.prefixes()[0], "/")) || second.pattern().MatchString(strings.TrimSuffix(first.prefixes()[0], "/"))
		if second.URL != first.URL && strings.HasPrefix(second.URL, "/") == strings.HasPrefix(first.URL, "/") && !overlap {
			c.Servers = append(c.Servers, second)
		}
	}
	sv := Pick(r, c.Servers)
	prefix := strings.TrimSuffix(Pick(r, sv.prefixes()), "/")
	switch r.Intn(10) {
	case 0:
		if strings.HasPrefix(prefix, "/") {
			prefix = "/elsewhere"
		} else {
			prefix = "https://other.example.org/base"
		}
	case 1:
		if i := strings.LastIndex(prefix, "/"); i > 8 || (i >= 0 && strings.HasPrefix(prefix, "/")) {
			prefix = prefix[:i] + "/nope"
		}
	case 2:
		prefix += "x" // the prefix is not followed by a segment boundary
	case 3:
		if strings.Contains(prefix, "%2F") {
			prefix = strings.ReplaceAll(prefix, "%2F", "/") // another path: an escaped slash is not a separator
		}
	}
	c.URL = prefix + c.Path
	c.strip()
}

func c09Directed() []C09Case {
	var out []C09Case
	add := func(paths []C09Path, reqs ...[2]string) {
		for _, rq := range reqs {
			out = append(out, C09Case{Paths: paths, Method: rq[0], Path: rq[1]})
		}
	}
	add([]C09Path{{"/b/{x}", []string{"GET"}}, {"/b", []string{"POST"}}}, [2]string{"GET", "/b/1"}, [2]string{"GET", "/b"}, [2]string{"GET", "/b/"}, [2]string{"POST", "/b"}, [2]string{"POST", "/b/1"}, [2]string{"GET", "/b/1/2"})
	add([]C09Path{{"/a/b", []string{"POST"}}, {"/a/{x}", []string{"GET"}}}, [2]string{"GET", "/a/b"}, [2]string{"POST", "/a/b"}, [2]string{"GET", "/a/c"}, [2]string{"POST", "/a/c"}, [2]string{"DELETE", "/a/b"})
	add([]C09Path{{"/a", []string{"GET"}}}, [2]string{"GET", "/a"}, [2]string{"FOO", "/a"}, [2]string{"POST", "/a"}, [2]string{"GET", "/"}, [2]string{"GET", "/a/"}, [2]string{"GET", "/A"})
	add([]C09Path{{"/items/{id}/sub/{k}", []string{"GET", "PUT"}}, {"/items/{id}", []string{"GET"}}, {"/items", []string{"GET"}}},
		[2]string{"GET", "/items/1/sub/2"}, [2]string{"PUT", "/items/1/sub/2"}, [2]string{"GET", "/items/1/sub"}, [2]string{"GET", "/items/1"}, [2]string{"GET", "/items"}, [2]string{"GET", "/items//sub/2"}, [2]string{"GET", "/items/a%2Fb"})
	add([]C09Path{{"/", []string{"GET"}}, {"/{x}", []string{"GET"}}}, [2]string{"GET", "/"}, [2]string{"GET", "/q"}, [2]string{"GET", ""})
	// a variable that does not start its segment next to a literal sibling: the literal wins
	add([]C09Path{{"/files/report.json", []string{"GET"}}, {"/files/report.{ext}", []string{"GET"}}},
		[2]string{"GET", "/files/report.json"}, [2]string{"GET", "/files/report.xml"}, [2]string{"GET", "/files/report."}, [2]string{"GET", "/files/report"})
	add([]C09Path{{"/v1/x", []string{"GET"}}, {"/v{ver}/x", []string{"GET", "POST"}}, {"/{a}/x", []string{"PUT"}}},
		[2]string{"GET", "/v1/x"}, [2]string{"POST", "/v1/x"}, [2]string{"GET", "/v2/x"}, [2]string{"PUT", "/v2/x"}, [2]string{"GET", "/v/x"}, [2]string{"PUT", "/w/x"})
	add([]C09Path{{"/a/{id}.json", []string{"GET"}}, {"/a/{id}", []string{"GET"}}}, [2]string{"GET", "/a/5.json"}, [2]string{"GET", "/a/5"}, [2]string{"GET", "/a/.json"})
	// documents with servers, URLs with a query or the bare marker of an empty one
	for _, q := range []string{"", "?", "?a=1", "?a=/b"} {
		for _, sv := range []C09Server{{URL: "https://api.example.com/v1"}, {URL: "/base"}} {
			c := C09Case{Paths: []C09Path{{"/pets/{id}", []string{"GET"}}, {"/pets", []string{"GET"}}}, Method: "GET", Path: "/pets/7", Servers: []C09Server{sv}}
			c.URL = sv.URL + c.Path + q
			c.strip()
			out = append(out, c)
		}
	}
	// a server variable and a template variable of the same name: the parameters returned are the template's
	for _, tc := range [][3]string{{"/{region}/api/{version}", "/us/api/v2/compat/v1/items/7", "/compat/{version}/items/{id}"},
		{"/{region}/api/{version}", "/us/api/v2/compat/v2/items/7", "/compat/{version}/items/{id}"},
		{"https://api.example.com/{id}", "https://api.example.com/a/pets/b", "/pets/{id}"}} {
		c := C09Case{Paths: []C09Path{{tc[2], []string{"GET"}}}, Method: "GET", URL: tc[1],
			Servers: []C09Server{{URL: tc[0], Vars: map[string]C09Var{"region": {Default: "us"}, "version": {Default: "v2", Enum: []string{"v1", "v2"}}, "id": {Default: "a"}}}}}
		vars := map[string]C09Var{}
		for _, m := range varRe.FindAllStringSubmatch(tc[0], -1) {
			vars[m[1]] = c.Servers[0].Vars[m[1]]
		}
		c.Servers[0].Vars = vars
		c.strip()
		out = append(out, c)
	}
	return out
}

func init() {
	runners["C09"] = func(seed uint64, n int, outDir string, replay string) {
		var cases []C09Case
		if replay != "" {
			cases = loadReplayCases[C09Case](replay)
		} else {
			cases = append(loadCorpus[C09Case]("C09"), c09Directed()...)
			r := NewRng(seed)
			for i := 0; i < n; i++ {
				cases = append(cases, c09Random(r))
			}
		}
		meta := &Meta{Property: "C09", Seed: seed, Histogram: map[string]int{}, Shard: 1000,
			Rule: "directed literal/templated sibling families + seeded random documents (1-5 templates of 1-4 segments, shared prefixes, literal and templated siblings, trailing slashes; 1-4 methods each; 35% with one or two declared servers from a pool of relative, absolute, port, host-variable, path-variable, scheme-variable URLs - never one extending the other) x requests that fill a template (values incl. percent-escapes and non-ASCII) or perturb it (extra/missing/empty segment, trailing slash, other or unknown method, the template text itself), sent under a declared server (variables at their default or an enum value) or under another host / base path / a prefix not ending at a segment boundary; server matching is specified on the harness side and what follows the server is judged by the model; 25% of the URLs under servers carry a query or the bare '?' of an empty one; 6% of the segments hold a variable next to literal text; + server-matching cases (directed + n/2 random: 1-3 declared server URLs from a pool with variables in scheme, host, port and path, adjacent variables, an unclosed brace, names with spaces x a URL that fills one of them (values incl. empty, with '-', '.', '/', escapes) or misses it by a character, followed by nothing, a path, '//', a query) judged against Model/Server.v and Spec/ServerSpec.v, and the server lists of the routed cases again; non-trivial = both routers were built; distinct by JSON of the case"}
		seen := map[string]bool{}
		var terms, sterms []string
		var idx, sidx []int
		if replay == "" {
			for _, sc := range c09SrvDirected() {
				sc := sc
				cases = append(cases, C09Case{Srv: &sc})
			}
			r2 := NewRng(seed ^ 0x5eed09)
			for i := 0; i < n/2; i++ {
				sc := c09SrvRandom(r2)
				cases = append(cases, C09Case{Srv: &sc})
			}
			// the server lists and URLs of the routed cases, too
			for i := range cases {
				if c := &cases[i]; c.Srv == nil && len(c.Servers) > 0 {
					sc := C09SrvCase{URL: c.URL}
					for _, sv := range c.Servers {
						sc.Patterns = append(sc.Patterns, sv.URL)
					}
					cases = append(cases, C09Case{Srv: &sc})
				}
			}
		}
		for i := range cases {
			c := &cases[i]
			if c.Srv != nil {
				o := runC09Srv(c.Srv)
				meta.Cases = append(meta.Cases, map[string]any{"input": c, "go": o})
				if o.Skip != "" {
					meta.Histogram["srv_unparsable_url"]++
					continue
				}
				if o.Panic != "" {
					meta.GoViolation = append(meta.GoViolation, map[string]any{"signature": "panic:server-matching", "cases": []any{c}, "panic": o.Panic})
					continue
				}
				sterms = append(sterms, c09SrvCoq(c.Srv, &o))
				sidx = append(sidx, i)
				key, _ := json.Marshal(c)
				if !seen[string(key)] {
					seen[string(key)] = true
					meta.Distinct++
				}
				meta.Histogram[fmt.Sprintf("srv_matched=%v", o.Index >= 0)]++
				meta.Histogram[fmt.Sprintf("srv_servers=%d", len(c.Srv.Patterns))]++
				continue
			}
			o := runC09(c)
			meta.Cases = append(meta.Cases, map[string]any{"input": c, "go": o})
			if o.Build != "" {
				meta.Histogram["not_built"]++
				continue
			}
			for rname, ro := range map[string]C09RObs{"legacy": o.Legacy, "gorilla": o.Gorilla} {
				if ro.ServerBad != "" {
					meta.Histogram["oracle:route-server"]++
					meta.GoViolation = append(meta.GoViolation, map[string]any{"signature": "route-server:request-not-under-the-server-the-route-names:" + rname, "cases": []any{c}, "go_observation": ro.ServerBad,
						"judgement": "the " + rname + " router returned a route whose Server the request does not lie under: " + ro.ServerBad})
				}
			}
			terms = append(terms, c09Coq(c, &o))
			idx = append(idx, i)
			key, _ := json.Marshal(c)
			if !seen[string(key)] {
				seen[string(key)] = true
				meta.Distinct++
			}
			meta.Histogram[fmt.Sprintf("legacy_kind=%d", o.Legacy.Kind)]++
			meta.Histogram[fmt.Sprintf("gorilla_kind=%d", o.Gorilla.Kind)]++
			meta.Histogram[fmt.Sprintf("templates=%d", len(c.Paths))]++
			if len(c.Servers) > 0 {
				meta.Histogram["with_servers"]++
			}
			if strings.Contains(c.URL, "?") {
				meta.Histogram["with_query"]++
			}
			for _, p := range c.Paths {
				if mixRe.MatchString(p.Template) {
					meta.Histogram["variable_inside_segment"]++
					break
				}
			}
		}
		if replay == "" {
			c09PathServers(meta)
		}
		meta.NCases = len(cases)
		var off1, off2 []int
		var f2 []string
		meta.Files, off1 = writeCasesAt(outDir, "cases", "From KV Require Import Model.Base Model.Router Exec.C09Exec.", "c09case", "judge", terms, meta.Shard, 0)
		f2, off2 = writeCasesAt(outDir, "srv", "From KV Require Import Model.Base Model.Router Model.Server Exec.C09SrvExec.", "c09srv", "judge_srv", sterms, meta.Shard, len(terms))
		meta.Files = append(meta.Files, f2...)
		meta.Offsets = append(off1, off2...)
		meta.IndexMap = append(idx, sidx...)
		writeMeta(outDir, meta)
		fmt.Fprintf(os.Stderr, "C09: %d cases (%d built)\n", len(cases), len(terms))
	}
}
