module verifharness

go 1.22.5

require (
	github.com/getkin/kin-openapi v0.0.0
	github.com/oasdiff/yaml v0.0.0-20250309154309-f31be36b4037
	github.com/oasdiff/yaml3 v0.0.0-20250309153720-d2182401db90
)

require (
	github.com/go-openapi/jsonpointer v0.21.0 // indirect
	github.com/go-openapi/swag v0.23.0 // indirect
	github.com/gorilla/mux v1.8.0 // indirect
	github.com/josharian/intern v1.0.0 // indirect
	github.com/mailru/easyjson v0.7.7 // indirect
	github.com/mohae/deepcopy v0.0.0-20170929034955-c48cc78d4826 // indirect
	github.com/perimeterx/marshmallow v1.1.5 // indirect
	gopkg.in/yaml.v3 v3.0.1 // indirect
)

replace github.com/getkin/kin-openapi => /repo
