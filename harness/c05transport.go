package main

// C05, the way a parameter reaches the decoder (Go side): the verdict for a query parameter does not
// depend on whether the server parsed the request's form before validating (a form body carrying the
// same keys with other values must not be read as the query), and a path parameter found by the
// legacy router arrives percent-decoded, whichever characters the client chose to encode.

import (
	"fmt"
	"net/http"
	"net/http/httptest"
	"strings"

	"github.com/getkin/kin-openapi/openapi3"
	"github.com/getkin/kin-openapi/routers/legacy"
)

// the request of the case, as a POST with a form body that repeats every query key with another
// value, and with the form parsed the way a server does before validating
func (c *C05Case) parsedFormRequest() (*http.Request, map[string]string) {
	req, pp := c.request()
	body := make([]string, 0, len(c.Frag.Query)+1)
	for _, kv := range c.Frag.Query {
		body = append(body, kv.K+"=zzz", kv.K+"=-1")
	}
	body = append(body, c.Name+"=zzz")
	req2 := httptest.NewRequest("POST", "/p", strings.NewReader(strings.Join(body, "&")))
	req2.URL.RawQuery = req.URL.RawQuery
	req2.Header = req.Header.Clone()
	req2.Header.Set("Content-Type", "application/x-www-form-urlencoded")
	_ = req2.ParseForm()
	return req2, pp
}

func escapeEveryByte(s string) string {
	var b strings.Builder
	for i := 0; i < len(s); i++ {
		ch := s[i]
		if (ch >= 'a' && ch <= 'z') || (ch >= 'A' && ch <= 'Z') || (ch >= '0' && ch <= '9') {
			b.WriteByte(ch)
		} else {
			fmt.Fprintf(&b, "%%%02X", ch)
		}
	}
	return b.String()
}

func apBoth(g *GSchema) bool {
	if g == nil {
		return false
	}
	if g.ApHas != nil && g.Ap != nil {
		return true
	}
	for _, p := range g.Props {
		if apBoth(p) {
			return true
		}
	}
	return apBoth(g.Items) || apBoth(g.Ap)
}

// c05Transport returns the oracles that failed for the case
func c05Transport(c *C05Case, o *C05Obs) (out [][2]string) {
	if c.In == "query" && len(c.Frag.Query) > 0 {
		c.viaForm = true
		o2 := runC05(c)
		c.viaForm = false
		if o2.Valid != o.Valid || o2.Err != o.Err || o2.Found != o.Found || o2.ValueText != o.ValueText {
			out = append(out, [2]string{"query-read-from-parsed-form", fmt.Sprintf("plain request: valid=%d err=%d found=%v value=%s; after ParseForm with a form body: valid=%d err=%d found=%v value=%s",
				o.Valid, o.Err, o.Found, o.ValueText, o2.Valid, o2.Err, o2.Found, o2.ValueText)})
		}
	}
	// (a schema object holding both forms of additionalProperties cannot be written: it is no document)
	if !apBoth(c.Schema) {
		// a definition that was written out (MarshalJSON) and read back is the same definition
		c.written = true
		o2 := runC05(c)
		c.written = false
		if o2.Valid != o.Valid || o2.Err != o.Err || o2.Found != o.Found || o2.ValueText != o.ValueText {
			out = append(out, [2]string{"definition-written-and-read-back-decodes-differently", fmt.Sprintf("as built: valid=%d err=%d found=%v value=%s; written and read back: valid=%d err=%d found=%v value=%s",
				o.Valid, o.Err, o.Found, o.ValueText, o2.Valid, o2.Err, o2.Found, o2.ValueText)})
		}
	}
	kind := "prim"
	if c.Schema != nil && c.Schema.HasTypes && len(c.Schema.Types) == 1 {
		switch c.Schema.Types[0] {
		case "array":
			kind = "arr"
		case "object":
			kind = "obj"
		}
	}
	// (an exploded object with an additionalProperties schema takes every key of the query as a member:
	// for it no key is "of another parameter")
	if c.In == "query" && len(c.Frag.Query) == 0 && c.definedCell(kind) && !(kind == "obj" && c.Schema.Ap != nil) {
		// an absent parameter is absent whatever else the query carries
		c.noise = true
		o2 := runC05(c)
		c.noise = false
		if o2.Valid != o.Valid || o2.Found != o.Found {
			out = append(out, [2]string{"absent-parameter-read-from-the-keys-of-others", fmt.Sprintf("empty query: valid=%d found=%v; query zzother=1: valid=%d found=%v value=%s %s",
				o.Valid, o.Found, o2.Valid, o2.Found, o2.ValueText, o2.VErrS)})
		}
	}
	if c.In == "path" {
		raw, ok := c.Frag.Path[c.Name]
		if !ok || raw == "" || strings.Contains(raw, "/") {
			return
		}
		doc := &openapi3.T{OpenAPI: "3.0.0", Info: &openapi3.Info{Title: "t", Version: "1"}, Paths: openapi3.NewPaths()}
		op := openapi3.NewOperation()
		op.Responses = openapi3.NewResponses()
		op.Parameters = openapi3.Parameters{&openapi3.ParameterRef{Value: &openapi3.Parameter{Name: c.Name, In: "path", Required: true, Schema: openapi3.NewStringSchema().NewRef()}}}
		doc.Paths.Set("/p/{"+c.Name+"}", &openapi3.PathItem{Get: op})
		router, err := legacy.NewRouter(doc)
		if err != nil {
			return
		}
		for _, enc := range []string{escapeEveryByte(raw)} {
			req, rerr := http.NewRequest("GET", "/p/"+enc, nil)
			if rerr != nil {
				continue
			}
			var pp map[string]string
			var ferr error
			if pn := catchPanic(func() { _, pp, ferr = router.FindRoute(req) }); pn != nil || ferr != nil {
				out = append(out, [2]string{"path-parameter-through-legacy-router:not-routed", fmt.Sprintf("GET /p/%s: %v %v", enc, pn, ferr)})
				continue
			}
			if pp[c.Name] != raw {
				out = append(out, [2]string{"path-parameter-through-legacy-router:not-decoded", fmt.Sprintf("GET /p/%s: parameter %q, sent %q", enc, pp[c.Name], raw)})
			}
		}
	}
	return
}
