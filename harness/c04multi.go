package main

// C04, documents made of several files (Go side): a conforming document whose recursive schemas
// live in files of their own (whole-file references, each file referring to itself more than
// once) is accepted under every option set, and a rule broken inside such a file is still found.

import (
	"context"
	"fmt"
	"net/url"

	"github.com/getkin/kin-openapi/openapi3"
)

func c04MultiFile(meta *Meta) {
	viol := func(sig string, c any, detail string) {
		meta.Histogram["oracle:"+sig]++
		meta.GoViolation = append(meta.GoViolation, map[string]any{"signature": sig, "cases": []any{c}, "go_observation": detail, "judgement": sig + ": " + detail})
	}
	node := func(extra string) string {
		return `{"type":"object","properties":{"value":{"type":"integer"` + extra + `},"left":{"$ref":"node.json"},"right":{"$ref":"node.json"},"kids":{"type":"array","items":{"$ref":"node.json"}}}}`
	}
	pair := func(extra string) (string, string) {
		return `{"type":"object","properties":{"a":{"$ref":"b.json"},"a2":{"$ref":"b.json"},"n":{"type":"string"` + extra + `}}}`,
			`{"type":"object","properties":{"back":{"$ref":"a.json"},"back2":{"$ref":"a.json"}}}`
	}
	root := `{"openapi":"3.0.3","info":{"title":"r","version":"1"},"paths":{"/t":{"get":{"responses":{"200":{"description":"ok","content":{"application/json":{"schema":{"$ref":"schemas/node.json"}}}}}}}},` +
		`"components":{"schemas":{"Tree":{"$ref":"schemas/node.json"},"A":{"$ref":"schemas/a.json"}}}}`
	optionSets := map[string][]openapi3.ValidationOption{"none": nil, "examples-off": {openapi3.DisableExamplesValidation()}, "defaults-off": {openapi3.DisableSchemaDefaultsValidation()},
		"patterns-off": {openapi3.DisableSchemaPatternValidation()}, "formats-on": {openapi3.EnableSchemaFormatValidation()}}
	for _, bad := range []string{"", `,"default":"not an integer"`, `,"minimum":"x"`} {
		a, b := pair("")
		if bad != "" {
			a, b = pair(`,"default":7`)
		}
		store := map[string]string{"/api/root.json": root, "/api/schemas/node.json": node(bad), "/api/schemas/a.json": a, "/api/schemas/b.json": b}
		for name, opts := range optionSets {
			loader := openapi3.NewLoader()
			loader.IsExternalRefsAllowed = true
			loader.ReadFromURIFunc = func(_ *openapi3.Loader, u *url.URL) ([]byte, error) {
				if d, ok := store[u.Path]; ok {
					return []byte(d), nil
				}
				return nil, fmt.Errorf("not found: %s", u)
			}
			desc := map[string]any{"files": store, "options": name}
			meta.Histogram["multi-file documents"]++
			var doc *openapi3.T
			var err, verr error
			if p := catchPanic(func() {
				if doc, err = loader.LoadFromURI(&url.URL{Path: "/api/root.json"}); err == nil {
					verr = doc.Validate(context.Background(), opts...)
				}
			}); p != nil {
				viol("multi-file:panic", desc, fmt.Sprint(p))
				continue
			}
			if err != nil {
				if bad != `,"minimum":"x"` { // a keyword of the wrong JSON type does not load at all
					viol("multi-file:conforming-document-does-not-load", desc, err.Error())
				}
				continue
			}
			wantOK := bad == "" || name == "defaults-off"
			if (verr == nil) != wantOK {
				viol("multi-file:verdict", desc, fmt.Sprintf("recursive whole-file schemas, rule broken inside: %q, options %s: Validate returned %v", bad, name, verr))
			}
		}
	}
}

// examples under format: date (Go side): the loader rewrites the YAML rendering of a plain date
// (2019-09-12T00:00:00Z) back into the date; nothing else is a date, and with formats checked an
// example that is a date-time is rejected wherever the schema sits
func c04DateExamples(meta *Meta) {
	for _, pos := range []string{"component", "property", "parameter"} {
		for ex, want := range map[string]bool{"2019-09-12": true, "2019-09-12T00:00:00Z": true, "2019-09-12T10:30:00Z": false, "2019-09-12T00:00:00+02:00": false, "2019-09-12Tuesday": false, "12 Sept": false} {
			day := `{"type":"string","format":"date","example":"` + ex + `"}`
			schemas, params := `"Day":{"type":"string"}`, `[]`
			switch pos {
			case "component":
				schemas = `"Day":` + day
			case "property":
				schemas = `"Day":{"type":"object","properties":{"d":` + day + `}}`
			default:
				params = `[{"name":"d","in":"query","schema":` + day + `}]`
			}
			text := `{"openapi":"3.0.3","info":{"title":"t","version":"1"},"paths":{"/p":{"get":{"parameters":` + params + `,"responses":{"200":{"description":"ok"}}}}},"components":{"schemas":{` + schemas + `}}}`
			desc := map[string]any{"position": pos, "example": ex}
			meta.Histogram["date examples"]++
			var verr error
			var err error
			if p := catchPanic(func() {
				var doc *openapi3.T
				if doc, err = openapi3.NewLoader().LoadFromData([]byte(text)); err == nil {
					verr = doc.Validate(context.Background(), openapi3.EnableSchemaFormatValidation())
				}
			}); p != nil || err != nil {
				continue
			}
			if (verr == nil) != want {
				sig := "date-example:verdict"
				meta.Histogram["oracle:"+sig]++
				meta.GoViolation = append(meta.GoViolation, map[string]any{"signature": sig, "cases": []any{desc}, "go_observation": fmt.Sprint(verr),
					"judgement": fmt.Sprintf("format: date with the example %q, formats checked: Validate returned %v, expected acceptance=%v", ex, verr, want)})
			}
		}
	}
}
