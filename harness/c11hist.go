package main

// C11, beyond single loads of an in-memory store (Go side): (1) histories on one Loader - a second
// root loaded with external references disallowed must not follow a reference to a document that
// an earlier load of the same Loader has read; (2) the default reader on a real directory - a
// reference that names another host (scheme-relative or file://host/...) must not be satisfied by
// opening the local file of the same path.

import (
	"encoding/json"
	"fmt"
	"net/url"
	"os"
	"path/filepath"
	"strings"

	"github.com/getkin/kin-openapi/openapi2"
	"github.com/getkin/kin-openapi/openapi2conv"
	"github.com/getkin/kin-openapi/openapi3"
)

func c11Extra(outDir string, meta *Meta) {
	viol := func(sig string, c any, detail string) {
		meta.Histogram["oracle:"+sig]++
		meta.GoViolation = append(meta.GoViolation, map[string]any{"signature": sig, "cases": []any{c}, "go_observation": detail, "judgement": sig + ": " + detail})
	}
	// ---- (1) histories on one loader ----
	a := `{"openapi":"3.0.3","info":{"title":"a","version":"1"},"paths":{},"components":{"schemas":{"X":{"type":"string","description":"id1"}}}}`
	for _, ref := range []string{"a.json#/components/schemas/X", "./a.json#/components/schemas/X", "/api/a.json#/components/schemas/X", "../api/a.json#/components/schemas/X"} {
		for _, firstAllowed := range []bool{false, true} {
			for _, entry := range []string{"uri", "data-with-path"} {
				b := `{"openapi":"3.0.3","info":{"title":"b","version":"1"},"paths":{},"components":{"schemas":{"Y":{"$ref":"` + ref + `"}}}}`
				store := map[string]string{"/api/a.json": a, "/api/b.json": b}
				var reads []string
				loader := openapi3.NewLoader()
				loader.ReadFromURIFunc = func(_ *openapi3.Loader, u *url.URL) ([]byte, error) {
					reads = append(reads, u.String())
					if d, ok := store[u.Path]; ok {
						return []byte(d), nil
					}
					return nil, fmt.Errorf("not found: %s", u)
				}
				loader.IsExternalRefsAllowed = firstAllowed
				if _, err := loader.LoadFromURI(&url.URL{Path: "/api/a.json"}); err != nil {
					continue
				}
				loader.IsExternalRefsAllowed = false
				reads = nil
				var doc *openapi3.T
				var err error
				pn := catchPanic(func() {
					if entry == "uri" {
						doc, err = loader.LoadFromURI(&url.URL{Path: "/api/b.json"})
					} else {
						doc, err = loader.LoadFromDataWithPath([]byte(b), &url.URL{Path: "/api/b.json"})
					}
				})
				desc := map[string]any{"history": []string{"load /api/a.json (external references " + map[bool]string{true: "allowed", false: "disallowed"}[firstAllowed] + ")", "load /api/b.json (disallowed) via " + entry}, "ref": ref}
				meta.Histogram["history cases"]++
				if pn != nil {
					viol("history:panic", desc, fmt.Sprint(pn))
					continue
				}
				for _, rd := range reads {
					if !strings.HasSuffix(rd, "/api/b.json") {
						viol("history:another-document-read-with-references-disallowed", desc, "reads: "+strings.Join(reads, ", "))
					}
				}
				if err == nil && doc != nil && doc.Components != nil && doc.Components.Schemas["Y"] != nil && doc.Components.Schemas["Y"].Value != nil {
					viol("history:external-reference-followed-with-references-disallowed", desc, "Y resolved to "+doc.Components.Schemas["Y"].Value.Description)
				}
			}
		}
	}
	// ---- (2) the default reader: a reference naming another host ----
	dir, _ := filepath.Abs(filepath.Join(outDir, "tree"))
	os.RemoveAll(dir)
	must(os.MkdirAll(filepath.Join(dir, "sub"), 0o755))
	must(os.WriteFile(filepath.Join(dir, "secret.json"), []byte(`{"type":"string","description":"local secret"}`), 0o644))
	must(os.WriteFile(filepath.Join(dir, "defs.json"), []byte(a), 0o644))
	for _, ref := range []string{"//other.example" + dir + "/secret.json", "file://other.example" + dir + "/secret.json", "//other.example" + dir + "/defs.json#/components/schemas/X",
		"file://other.example" + dir + "/defs.json#/components/schemas/X"} {
		for _, entry := range []string{"file", "data"} {
			root := `{"openapi":"3.0.3","info":{"title":"r","version":"1"},"paths":{},"components":{"schemas":{"Y":{"$ref":"` + ref + `"}}}}`
			must(os.WriteFile(filepath.Join(dir, "root.json"), []byte(root), 0o644))
			loader := openapi3.NewLoader()
			loader.IsExternalRefsAllowed = true
			var doc *openapi3.T
			var err error
			pn := catchPanic(func() {
				if entry == "file" {
					doc, err = loader.LoadFromFile(filepath.Join(dir, "root.json"))
				} else {
					doc, err = loader.LoadFromData([]byte(root))
				}
			})
			desc := map[string]any{"default_reader": true, "entry": entry, "ref": strings.ReplaceAll(ref, dir, "<dir>")}
			meta.Histogram["default reader cases"]++
			if pn != nil {
				viol("default-reader:panic", desc, fmt.Sprint(pn))
				continue
			}
			if err == nil && doc != nil && doc.Components.Schemas["Y"].Value != nil {
				viol("default-reader:reference-to-another-host-read-from-the-local-file-system", desc, "Y resolved to "+doc.Components.Schemas["Y"].Value.Description)
			}
		}
	}
	os.RemoveAll(dir)
	// ---- (3) a callback (and other whole-file elements) in another directory: its relative references are read from its own directory ----
	{
		root := `{"openapi":"3.0.3","info":{"title":"r","version":"1"},"paths":{"/s":{"post":{"responses":{"200":{"description":"ok"}},` +
			`"callbacks":{"onEvent":{"$ref":"hooks/onEvent.json"}}}}}}`
		hook := `{"{$request.body#/url}":{"post":{"requestBody":{"content":{"application/json":{"schema":{"$ref":"schemas/event.json"}}}},` +
			`"responses":{"200":{"description":"ok","content":{"application/json":{"schema":{"$ref":"../../shared/ack.json"}}}}}}}}`
		leaf := `{"type":"string"}`
		store := map[string]string{"/work/project/api/root.json": root, "/work/project/api/hooks/onEvent.json": hook,
			"/work/project/api/hooks/schemas/event.json": leaf, "/work/project/shared/ack.json": leaf,
			// what a wrong base would read
			"/work/project/api/schemas/event.json": leaf, "/work/shared/ack.json": leaf}
		want := map[string]bool{"/work/project/api/root.json": true, "/work/project/api/hooks/onEvent.json": true, "/work/project/api/hooks/schemas/event.json": true, "/work/project/shared/ack.json": true}
		var reads []string
		loader := openapi3.NewLoader()
		loader.IsExternalRefsAllowed = true
		loader.ReadFromURIFunc = func(_ *openapi3.Loader, u *url.URL) ([]byte, error) {
			reads = append(reads, u.Path)
			if d, ok := store[u.Path]; ok {
				return []byte(d), nil
			}
			return nil, fmt.Errorf("not found: %s", u)
		}
		desc := map[string]any{"root": "/work/project/api/root.json", "callback_file": "hooks/onEvent.json", "refs_inside": []string{"schemas/event.json", "../../shared/ack.json"}}
		meta.Histogram["whole-file callback cases"]++
		var err error
		pn := catchPanic(func() { _, err = loader.LoadFromURI(&url.URL{Path: "/work/project/api/root.json"}) })
		if pn != nil {
			viol("whole-file-callback:panic", desc, fmt.Sprint(pn))
		} else {
			for _, rd := range reads {
				if !want[rd] {
					viol("whole-file-callback:location-read-that-no-reference-designates", desc, fmt.Sprintf("reads: %s (error: %v)", strings.Join(reads, ", "), err))
					break
				}
			}
		}
	}
	// ---- (3b) an absolute-path reference in a document that has a host: read from that host, never from the local file system ----
	for _, ref := range []string{"/etc/secret.json", "/etc/secret.json#/components/schemas/X", "/api/defs.json#/components/schemas/X"} {
		leaf := `{"type":"string","description":"remote"}`
		whole := `{"openapi":"3.0.3","info":{"title":"a","version":"1"},"paths":{},"components":{"schemas":{"X":{"type":"string","description":"remote"}}}}`
		root := `{"openapi":"3.0.3","info":{"title":"r","version":"1"},"paths":{},"components":{"schemas":{"Y":{"$ref":"` + ref + `"}}}}`
		store := map[string]string{"http://h.example/api/root.json": root, "http://h.example/etc/secret.json": leaf, "http://h.example/api/defs.json": whole}
		if strings.Contains(ref, "#") {
			store["http://h.example/etc/secret.json"] = whole
		}
		var reads []string
		loader := openapi3.NewLoader()
		loader.IsExternalRefsAllowed = true
		loader.ReadFromURIFunc = func(_ *openapi3.Loader, u *url.URL) ([]byte, error) {
			reads = append(reads, u.String())
			if d, ok := store[u.String()]; ok {
				return []byte(d), nil
			}
			return nil, fmt.Errorf("not found: %s", u)
		}
		desc := map[string]any{"root": "http://h.example/api/root.json", "ref": ref}
		meta.Histogram["absolute path in a remote document"]++
		ru, _ := url.Parse("http://h.example/api/root.json")
		pn := catchPanic(func() { _, _ = loader.LoadFromURI(ru) })
		if pn != nil {
			viol("remote-absolute-path:panic", desc, fmt.Sprint(pn))
			continue
		}
		for _, rd := range reads {
			if !strings.HasPrefix(rd, "http://h.example/") {
				viol("remote-absolute-path:local-file-read-for-a-reference-found-in-a-remote-document", desc, "reads: "+strings.Join(reads, ", "))
				break
			}
		}
	}
	// ---- (3c) a scheme-relative reference (//host/path) names another host: it is never read from the
	// referring server, and never from the local file system ----
	for _, rootURI := range []string{"https://base.example/api/root.json", "/work/api/root.json"} {
		for _, ref := range []string{"//cdn.example/schemas/other.json", "//cdn.example/schemas/other.json#/components/schemas/X"} {
			whole := `{"openapi":"3.0.3","info":{"title":"a","version":"1"},"paths":{},"components":{"schemas":{"X":{"type":"string","description":"wrong place"}}}}`
			root := `{"openapi":"3.0.3","info":{"title":"r","version":"1"},"paths":{},"components":{"schemas":{"Y":{"$ref":"` + ref + `"}}}}`
			// what a wrong resolution would find
			store := map[string]string{rootURI: root, "https://base.example/schemas/other.json": whole, "/schemas/other.json": whole}
			var reads []string
			loader := openapi3.NewLoader()
			loader.IsExternalRefsAllowed = true
			loader.ReadFromURIFunc = func(_ *openapi3.Loader, u *url.URL) ([]byte, error) {
				reads = append(reads, u.String())
				if d, ok := store[u.String()]; ok {
					return []byte(d), nil
				}
				return nil, fmt.Errorf("not found: %s", u)
			}
			desc := map[string]any{"root": rootURI, "ref": ref}
			meta.Histogram["scheme-relative references"]++
			ru, _ := url.Parse(rootURI)
			pn := catchPanic(func() { _, _ = loader.LoadFromURI(ru) })
			if pn != nil {
				viol("scheme-relative:panic", desc, fmt.Sprint(pn))
				continue
			}
			for _, rd := range reads[1:] {
				if !strings.Contains(rd, "cdn.example") {
					viol("scheme-relative:reference-to-another-host-read-elsewhere", desc, "reads: "+strings.Join(reads, ", "))
					break
				}
			}
		}
	}
	// ---- (4) LoadFromFile: the root that is read is the file that was named, whatever characters its name has ----
	dir2, _ := filepath.Abs(filepath.Join(outDir, "names"))
	os.RemoveAll(dir2)
	must(os.MkdirAll(filepath.Join(dir2, "a"), 0o755))
	docOf := func(title string) []byte {
		return []byte(`{"openapi":"3.0.3","info":{"title":"` + title + `","version":"1"},"paths":{}}`)
	}
	for _, decoy := range []string{"v1.json", "a/b.json", "spec", "x y.json"} {
		must(os.WriteFile(filepath.Join(dir2, decoy), docOf("decoy"), 0o644))
	}
	for _, name := range []string{"v%31.json", "a%2Fb.json", "spec#draft.json", "spec?.json", "x%20y.json", "plain.json", "100%.json"} {
		must(os.WriteFile(filepath.Join(dir2, name), docOf("named"), 0o644))
		var reads []string
		loader := openapi3.NewLoader()
		loader.ReadFromURIFunc = func(l *openapi3.Loader, u *url.URL) ([]byte, error) {
			reads = append(reads, u.Path)
			return openapi3.DefaultReadFromURI(l, u)
		}
		desc := map[string]any{"load_from_file": name, "next_to": []string{"v1.json", "a/b.json", "spec", "x y.json"}}
		meta.Histogram["file name cases"]++
		var doc *openapi3.T
		var err error
		if pn := catchPanic(func() { doc, err = loader.LoadFromFile(filepath.Join(dir2, name)) }); pn != nil {
			viol("file-name:panic", desc, fmt.Sprint(pn))
			continue
		}
		if err != nil {
			viol("file-name:the-named-root-does-not-load", desc, err.Error())
			continue
		}
		if doc.Info == nil || doc.Info.Title != "named" || len(reads) != 1 || reads[0] != filepath.ToSlash(filepath.Join(dir2, name)) {
			viol("file-name:another-file-read-instead-of-the-root", desc, "reads: "+strings.Join(reads, ", "))
		}
	}
	os.RemoveAll(dir2)
	// ---- (5) a path item file that holds nothing but servers, reached through a callback of a document in a
	// sub-directory: the reference is written in sub/cb.yml, so sub/item.yml is the one location it designates ----
	{
		dir3, _ := filepath.Abs(filepath.Join(outDir, "cbitem"))
		os.RemoveAll(dir3)
		files := map[string]string{
			"root.yml": `{"openapi":"3.0.0","info":{"title":"t","version":"1"},"paths":{"/p":{"post":{"responses":{"200":{"description":"ok"}},` +
				`"callbacks":{"cb":{"$ref":"sub/cb.yml#/components/callbacks/C"}}}}}}`,
			"sub/cb.yml": `{"openapi":"3.0.0","info":{"title":"t","version":"1"},"paths":{},` +
				`"components":{"callbacks":{"C":{"{$request.body#/url}":{"$ref":"item.yml"}}}}}`,
		}
		for _, content := range []struct{ kind, right, wrong string }{
			{"servers-only", `{"servers":[{"url":"http://right.example"}]}`, `{"servers":[{"url":"http://wrong.example"}]}`},
			{"parameters-only", `{"parameters":[{"name":"right","in":"query","schema":{"type":"string"}}]}`, `{"parameters":[{"name":"wrong","in":"query","schema":{"type":"string"}}]}`},
			{"summary-only", `{"summary":"right"}`, `{"summary":"wrong"}`},
			{"operation", `{"get":{"operationId":"right","responses":{"200":{"description":"ok"}}}}`, `{"get":{"operationId":"wrong","responses":{"200":{"description":"ok"}}}}`},
		} {
			files["sub/item.yml"], files["item.yml"] = content.right, content.wrong
			for name, text := range files {
				fp := filepath.Join(dir3, filepath.FromSlash(name))
				must(os.MkdirAll(filepath.Dir(fp), 0o755))
				must(os.WriteFile(fp, []byte(text), 0o644))
			}
			at := func(name string) string { return filepath.ToSlash(filepath.Join(dir3, filepath.FromSlash(name))) }
			designated := map[string]bool{at("root.yml"): true, at("sub/cb.yml"): true, at("sub/item.yml"): true}
			var reads []string
			loader := openapi3.NewLoader()
			loader.IsExternalRefsAllowed = true
			loader.ReadFromURIFunc = func(l *openapi3.Loader, u *url.URL) ([]byte, error) {
				reads = append(reads, u.Path)
				return openapi3.ReadFromFile(l, u)
			}
			desc := map[string]any{"callback_path_item_file": content.kind, "files": []string{"root.yml", "sub/cb.yml", "sub/item.yml", "item.yml (referenced by nothing)"}}
			meta.Histogram["callback path item file cases"]++
			var doc *openapi3.T
			var err error
			if pn := catchPanic(func() { doc, err = loader.LoadFromFile(at("root.yml")) }); pn != nil {
				viol("callback-item:panic", desc, fmt.Sprint(pn))
				continue
			}
			for _, r := range reads {
				if !designated[r] {
					viol("callback-item:read-of-a-file-no-reference-designates:"+content.kind, desc, "reads: "+strings.Join(reads, ", "))
					break
				}
			}
			if err == nil && doc != nil {
				b, _ := doc.MarshalJSON()
				if strings.Contains(string(b), "wrong") {
					viol("callback-item:content-of-a-file-no-reference-designates:"+content.kind, desc, string(b))
				}
			}
		}
		os.RemoveAll(dir3)
	}
	// ---- (6) openapi2conv.ToV3 takes no loader: it behaves as the default, external references are not followed ----
	{
		dir4, _ := filepath.Abs(filepath.Join(outDir, "v2ext"))
		os.RemoveAll(dir4)
		must(os.MkdirAll(dir4, 0o755))
		secret := filepath.Join(dir4, "defs.json")
		must(os.WriteFile(secret, []byte(`{"components":{"schemas":{"Pet":{"type":"string","description":"SECRET"}}},"definitions":{"Pet":{"type":"string","description":"SECRET"}}}`), 0o644))
		for _, ref := range []string{secret + "#/definitions/Pet", secret + "#/components/schemas/Pet", "file://" + filepath.ToSlash(secret) + "#/definitions/Pet", "defs.json#/definitions/Pet"} {
			for _, where := range []string{"definition", "property", "body-parameter", "response"} {
				r := `{"$ref":"` + ref + `"}`
				defs, param, resp := `{"Local":{"type":"string"}}`, `{"name":"b","in":"body","schema":{"type":"string"}}`, `{"description":"ok"}`
				switch where {
				case "definition":
					defs = `{"Local":` + r + `}`
				case "property":
					defs = `{"Local":{"type":"object","properties":{"p":` + r + `}}}`
				case "body-parameter":
					param = `{"name":"b","in":"body","schema":` + r + `}`
				default:
					resp = `{"description":"ok","schema":` + r + `}`
				}
				text := `{"swagger":"2.0","info":{"title":"t","version":"1"},"paths":{"/a":{"post":{"parameters":[` + param + `],"responses":{"200":` + resp + `}}}},"definitions":` + defs + `}`
				var d2 openapi2.T
				if json.Unmarshal([]byte(text), &d2) != nil {
					continue
				}
				reads := 0
				old := openapi3.DefaultReadFromURI
				openapi3.DefaultReadFromURI = func(l *openapi3.Loader, u *url.URL) ([]byte, error) { reads++; return old(l, u) }
				var d3 *openapi3.T
				var err error
				pn := catchPanic(func() { d3, err = openapi2conv.ToV3(&d2) })
				openapi3.DefaultReadFromURI = old
				desc := map[string]any{"v2_reference": strings.ReplaceAll(ref, dir4, "<dir>"), "position": where}
				meta.Histogram["v2 external reference cases"]++
				leaked := false
				if d3 != nil {
					b, _ := d3.MarshalJSON()
					leaked = strings.Contains(string(b), "SECRET")
				}
				if pn != nil {
					viol("v2-conversion:panic", desc, fmt.Sprint(pn))
				} else if reads > 0 || leaked {
					viol("v2-conversion:external-reference-followed", desc, fmt.Sprintf("reads=%d content copied=%v err=%v", reads, leaked, err))
				}
			}
		}
		os.RemoveAll(dir4)
	}
}
