package main

// C02 / C20, histories on one Loader (Go side): a load that fails half-way (or succeeds) followed by
// the load of a self-contained document at a location of its own must behave exactly as on a
// fresh Loader - same outcome, same object at every reference position, no panic - whatever the
// first load left behind (in-progress references, back-track callbacks, visited documents).

import (
	"encoding/json"
	"fmt"
	"net/url"
	"sort"
	"strings"
	"time"

	"github.com/getkin/kin-openapi/openapi3"
)

type lHistory struct {
	First  LCase  `json:"first_load"`
	Second LCase  `json:"second_load"`
	Via    string `json:"second_load_via"`
}

func loadOn(loader *openapi3.Loader, c *LCase, via string, relocate bool) (out int, errText string, obs map[string]*int64) {
	done := make(chan struct{})
	go func() {
		defer close(done)
		defer func() {
			if r := recover(); r != nil {
				out, errText = 2, fmt.Sprint(r)
			}
		}()
		loader.IsExternalRefsAllowed = c.Allow
		loader.ReadFromURIFunc = func(_ *openapi3.Loader, u *url.URL) ([]byte, error) {
			if b, ok := c.fileBytes(u.String()); ok {
				return b, nil
			}
			return nil, fmt.Errorf("no such file: %s", u.String())
		}
		rootBytes, _ := c.fileBytes(c.Root)
		if c.Bytes != "" {
			rootBytes = []byte(c.Bytes)
		}
		var doc *openapi3.T
		var err error
		switch via {
		case "data":
			doc, err = loader.LoadFromData(rootBytes)
		case "data-with-path":
			loc := c.Root
			if relocate {
				loc = "/fresh/second.json"
			}
			u, _ := url.Parse(loc)
			doc, err = loader.LoadFromDataWithPath(rootBytes, u)
		default:
			u, _ := url.Parse(c.Root)
			doc, err = loader.LoadFromURI(u)
		}
		if err != nil {
			out, errText = 1, err.Error()
			return
		}
		obs = observeDoc(doc)
	}()
	select {
	case <-done:
	case <-time.After(10 * time.Second):
		out, errText = 3, "timeout"
	}
	return
}

func sameObs(a, b map[string]*int64) string {
	keys := map[string]bool{}
	for k := range a {
		keys[k] = true
	}
	for k := range b {
		keys[k] = true
	}
	var ks []string
	for k := range keys {
		ks = append(ks, k)
	}
	sort.Strings(ks)
	show := func(p *int64) string {
		if p == nil {
			return "unresolved"
		}
		return fmt.Sprintf("id%d", *p)
	}
	for _, k := range ks {
		x, okx := a[k]
		y, oky := b[k]
		if okx != oky || (x == nil) != (y == nil) || (x != nil && *x != *y) {
			return fmt.Sprintf("%s: first %s, second %s", k, show(x), show(y))
		}
	}
	return ""
}

func lHistDirected() []lHistory {
	doc := func(components map[string]any, extra ...any) map[string]any {
		d := jobj("openapi", "3.0.3", "info", jobj("title", "t", "version", "1"), "paths", jobj(), "components", components)
		for i := 0; i+1 < len(extra); i += 2 {
			d[extra[i].(string)] = extra[i+1]
		}
		return d
	}
	ref := func(r string) map[string]any { return jobj("$ref", r) }
	var out []lHistory
	// a chain that breaks off at a missing target, then the corrected document with the same texts elsewhere
	broken := doc(jobj("schemas", jobj("A", ref("#/components/schemas/B"), "B", ref("#/components/schemas/C"), "C", ref("#/components/schemas/Missing"))))
	fixed := doc(jobj("schemas", jobj("A", ref("#/components/schemas/B"), "B", ref("#/components/schemas/C"), "C", jobj("type", "string", "description", "id7"))))
	// a self-referential schema left open by an error, then the same text naming a component of another kind
	open1 := doc(jobj("schemas", jobj("S", ref("#/x-defs/Node"))), "x-defs", jobj("Node", jobj("type", "object", "properties", jobj("next", ref("#/x-defs/Node"), "zz", ref("#/components/schemas/Missing")))))
	other := doc(jobj("headers", jobj("H", ref("#/x-defs/Node"))), "x-defs", jobj("Node", jobj("description", "id9", "schema", jobj("type", "string"))))
	cyc := doc(jobj("schemas", jobj("A", jobj("type", "object", "description", "id3", "properties", jobj("self", ref("#/components/schemas/A"), "bad", ref("#/components/schemas/Missing"))))))
	cycOK := doc(jobj("schemas", jobj("A", jobj("type", "object", "description", "id4", "properties", jobj("self", ref("#/components/schemas/A"))))))
	mk := func(d map[string]any, root string, entry int) LCase {
		return LCase{Allow: false, Entry: entry, Root: root, Files: []LFile{{URI: root, Doc: d}}}
	}
	for _, via := range []string{"data", "data-with-path"} {
		for _, firstEntry := range []int{1, 2} {
			out = append(out,
				lHistory{mk(broken, "/api/root.json", firstEntry), mk(fixed, "/api/root.json", 2), via},
				lHistory{mk(open1, "/api/root.json", firstEntry), mk(other, "/api/root.json", 2), via},
				lHistory{mk(cyc, "/api/root.json", firstEntry), mk(cycOK, "/api/root.json", 2), via},
				lHistory{mk(open1, "/api/root.json", firstEntry), mk(fixed, "/api/root.json", 2), via})
		}
	}
	return out
}

func lHistories(cases []LCase, obsOf func(i int) *LObs, meta *Meta, maxFirst, maxSecond int) {
	var hs []lHistory
	hs = append(hs, lHistDirected()...)
	// generated: first loads that failed (and a few that did not), second loads of self-contained single documents
	var firsts, seconds []int
	for i := range cases {
		c := &cases[i]
		if c.Bytes != "" || c.NoModel {
			continue
		}
		o := obsOf(i)
		if o.Out == 1 && len(firsts) < maxFirst {
			firsts = append(firsts, i)
		} else if o.Out == 0 && i%7 == 0 && len(firsts) < maxFirst {
			firsts = append(firsts, i)
		}
		if o.Out == 0 && len(c.Files) == 1 && c.Files[0].Doc != nil && len(seconds) < maxSecond {
			refs := map[string]bool{}
			allRefs(c.Files[0].Doc, refs)
			internal := len(refs) > 0
			for r := range refs {
				if len(r) == 0 || r[0] != '#' {
					internal = false
				}
			}
			if internal {
				seconds = append(seconds, i)
			}
		}
	}
	for _, a := range firsts {
		for k, b := range seconds {
			via := []string{"data", "data-with-path"}[(a+k)%2]
			hs = append(hs, lHistory{cases[a], cases[b], via})
		}
	}
	for i := range hs {
		h := &hs[i]
		meta.Histogram["history cases"]++
		fo, fe, fobs := loadOn(openapi3.NewLoader(), &h.Second, h.Via, true)
		loader := openapi3.NewLoader()
		firstVia := map[int]string{0: "uri", 1: "data", 2: "data-with-path"}[h.First.Entry]
		o1, _, _ := loadOn(loader, &h.First, firstVia, false)
		meta.Histogram[fmt.Sprintf("history first outcome=%d", o1)]++
		ro, re, robs := loadOn(loader, &h.Second, h.Via, true)
		sig, detail := "", ""
		switch {
		case ro >= 2 && fo < 2:
			sig, detail = "history:panic-or-hang-on-a-reused-loader", re
		case ro != fo:
			sig, detail = "history:outcome-differs-on-a-reused-loader", fmt.Sprintf("fresh loader: outcome %d %s; reused loader: outcome %d %s", fo, fe, ro, re)
		case ro == 0:
			if d := sameObs(fobs, robs); d != "" {
				sig, detail = "history:resolution-differs-on-a-reused-loader", d
			}
		}
		if sig != "" {
			key, _ := json.Marshal(h)
			_ = key
			meta.Histogram["oracle:"+sig]++
			meta.GoViolation = append(meta.GoViolation, map[string]any{"signature": sig, "cases": []any{h}, "go_observation": detail, "judgement": sig + ": " + detail})
		}
	}
}

// the caching reader the library builds its default reader from (URIMapCache) must be transparent:
// the same store read through it resolves every reference to the same object
func lCacheTransparency(cases []LCase, obsOf func(i int) *LObs, meta *Meta, max int, robustOnly bool) {
	doc := func(schemas map[string]any) map[string]any {
		return jobj("openapi", "3.0.3", "info", jobj("title", "t", "version", "1"), "paths", jobj(), "components", jobj("schemas", schemas))
	}
	ref := func(r string) map[string]any { return jobj("$ref", r) }
	str := func(id string) map[string]any { return jobj("type", "string", "description", id) }
	var cs []LCase
	// resources that differ in the query only, in the host only, in the scheme only
	for _, pair := range [][2]string{{"http://h.example/defs.json?rev=1", "http://h.example/defs.json?rev=2"}, {"http://h.example/defs.json", "http://g.example/defs.json"},
		{"http://h.example/defs.json", "https://h.example/defs.json"}, {"http://h.example/defs.json", "http://h.example/defs.json?"}, {"http://h.example/a/defs.json", "http://h.example/b/defs.json"}} {
		root := doc(jobj("A", ref(pair[0]+"#/components/schemas/X"), "B", ref(pair[1]+"#/components/schemas/X"), "C", ref(pair[0]+"#/components/schemas/X")))
		cs = append(cs, LCase{Allow: true, Entry: 2, Root: "/api/root.json", Files: []LFile{{URI: "/api/root.json", Doc: root},
			{URI: pair[0], Doc: doc(jobj("X", str("id1")))}, {URI: pair[1], Doc: doc(jobj("X", str("id2")))}}})
	}
	// one file read several times through the cache (whole-file references are read once per reference), then others
	{
		el := func(id string) map[string]any { return jobj("type", "string", "description", id) }
		root := doc(jobj("A", ref("a.json"), "B", ref("a.json"), "C", ref("c.json"), "D", ref("sub/d.json"), "E", ref("a.json"), "F", ref("http://h.example/f.json"), "G", ref("http://h.example/f.json"), "H", ref("http://h.example/g.json")))
		for _, rootURI := range []string{"/api/root.json", "http://h.example/api/root.json"} {
			base := rootURI[:len(rootURI)-len("root.json")]
			cs = append(cs, LCase{Allow: true, Entry: 2, Root: rootURI, Files: []LFile{{URI: rootURI, Doc: root},
				{URI: base + "a.json", Doc: el("ida")}, {URI: base + "c.json", Doc: el("idc")}, {URI: base + "sub/d.json", Doc: el("idd")},
				{URI: "http://h.example/f.json", Doc: el("idf")}, {URI: "http://h.example/g.json", Doc: el("idg")}}})
		}
	}
	n := 0
	for i := range cases {
		c := &cases[i]
		if c.Bytes == "" && !c.NoModel && c.Allow && len(c.Files) > 1 && obsOf(i).Out == 0 && n < max {
			cs = append(cs, *c)
			n++
		}
	}
	for i := range cs {
		c := &cs[i]
		meta.Histogram["cache cases"]++
		plain := func(_ *openapi3.Loader, u *url.URL) ([]byte, error) {
			if b, ok := c.fileBytes(u.String()); ok {
				return b, nil
			}
			return nil, fmt.Errorf("no such file: %s", u.String())
		}
		load1 := func(reader openapi3.ReadFromURIFunc) (int, string, map[string]*int64) {
			var out int
			var et string
			var obs map[string]*int64
			if p := catchPanic(func() {
				loader := openapi3.NewLoader()
				loader.IsExternalRefsAllowed = true
				loader.ReadFromURIFunc = reader
				rb, _ := c.fileBytes(c.Root)
				var doc *openapi3.T
				var err error
				if c.Entry == 1 {
					doc, err = loader.LoadFromData(rb)
				} else {
					u, _ := url.Parse(c.Root)
					doc, err = loader.LoadFromDataWithPath(rb, u)
				}
				if err != nil {
					out, et = 1, err.Error()
					return
				}
				obs = observeDoc(doc)
			}); p != nil {
				out, et = 2, fmt.Sprint(p)
			}
			return out, et, obs
		}
		// a load that does not return (a lock of the cache never released) is reported, not waited for
		load := func(reader openapi3.ReadFromURIFunc) (int, string, map[string]*int64) {
			type res struct {
				out int
				et  string
				obs map[string]*int64
			}
			ch := make(chan res, 1)
			go func() {
				o, e, ob := load1(reader)
				ch <- res{o, e, ob}
			}()
			select {
			case r := <-ch:
				return r.out, r.et, r.obs
			case <-time.After(10 * time.Second):
				return 3, "the load did not return within 10 s", nil
			}
		}
		po, pe, pobs := load(plain)
		co, ce, cobs := load(openapi3.URIMapCache(plain))
		sig, detail := "", ""
		if co == 3 && po != 3 {
			sig, detail = "cache:load-hangs-through-URIMapCache", "plain reader: outcome "+fmt.Sprint(po)+"; caching reader: "+ce
		} else if co == 2 && po != 2 {
			sig, detail = "cache:load-panics-through-URIMapCache", ce
		} else if robustOnly {
			// C20 asks for an outcome, not for the right one
		} else if po != co {
			sig, detail = "cache:outcome-differs-through-URIMapCache", fmt.Sprintf("plain reader: outcome %d %s; caching reader: outcome %d %s", po, pe, co, ce)
		} else if po == 0 {
			if d := sameObs(pobs, cobs); d != "" {
				sig, detail = "cache:resolution-differs-through-URIMapCache", d
			}
		}
		if sig != "" {
			meta.Histogram["oracle:"+sig]++
			meta.GoViolation = append(meta.GoViolation, map[string]any{"signature": sig, "cases": []any{c}, "go_observation": detail, "judgement": sig + ": " + detail})
			if co == 3 {
				return // the stuck goroutine holds the cache's lock: nothing further can be learnt in this process
			}
		}
	}
}

// directed documents outside the store model (Go side): an internal reference whose fragment is
// percent-encoded designates the component of the decoded name; a callback that registers itself
// again is a reference cycle like any other and is resolved
func lDirectedExtras(meta *Meta) {
	viol := func(sig string, c any, detail string) {
		meta.Histogram["oracle:"+sig]++
		meta.GoViolation = append(meta.GoViolation, map[string]any{"signature": sig, "cases": []any{c}, "go_observation": detail, "judgement": sig + ": " + detail})
	}
	// ---- percent-encoded fragments ----
	for _, tc := range []struct{ name, spelled, decoy string }{{"My Type", "My%20Type", "My%20Type"}, {"a{b}", "a%7Bb%7D", "a%7Bb%7D"}, {"é", "%C3%A9", "%C3%A9"}, {"Plain", "Plain", "Pl%61in"}} {
		for _, withDecoy := range []bool{false, true} {
			schemas := map[string]any{tc.name: jobj("type", "string", "description", "id1"), "R": jobj("$ref", "#/components/schemas/"+tc.spelled)}
			if withDecoy && tc.decoy != tc.name {
				schemas[tc.decoy] = jobj("type", "integer", "description", "id2")
			}
			d := jobj("openapi", "3.0.3", "info", jobj("title", "t", "version", "1"), "paths", jobj(), "components", jobj("schemas", schemas))
			b, _ := json.Marshal(d)
			meta.Histogram["directed extras"]++
			desc := map[string]any{"document": d}
			var doc *openapi3.T
			var err error
			if p := catchPanic(func() { doc, err = openapi3.NewLoader().LoadFromData(b) }); p != nil {
				viol("extras:panic", desc, fmt.Sprint(p))
				continue
			}
			if err != nil {
				viol("extras:percent-encoded-fragment-does-not-load", desc, err.Error())
				continue
			}
			r := doc.Components.Schemas["R"]
			if r == nil || r.Value == nil || r.Value.Description != "id1" {
				got := "unresolved"
				if r != nil && r.Value != nil {
					got = r.Value.Description
				}
				viol("extras:percent-encoded-fragment-designates-another-object", desc, fmt.Sprintf("#/components/schemas/%s resolved to %s, the component named %q is id1", tc.spelled, got, tc.name))
			}
		}
	}
	// ---- a callback whose operation registers the same callback again ----
	for _, nested := range []bool{false, true} {
		again := jobj("$ref", "#/components/callbacks/Event")
		opCallbacks := jobj("again", again)
		if nested {
			opCallbacks = jobj("again", again, "other", jobj("{$request.body#/u}", jobj("post", jobj("responses", jobj("200", jobj("description", "ok")), "callbacks", jobj("deep", jobj("$ref", "#/components/callbacks/Event"))))))
		}
		d := jobj("openapi", "3.0.3", "info", jobj("title", "t", "version", "1"), "paths", jobj(),
			"components", jobj("callbacks", jobj("Event", jobj("{$request.body#/url}", jobj("post", jobj("responses", jobj("200", jobj("description", "ok")), "callbacks", opCallbacks))))))
		b, _ := json.Marshal(d)
		meta.Histogram["directed extras"]++
		desc := map[string]any{"document": d}
		var doc *openapi3.T
		var err error
		if p := catchPanic(func() { doc, err = openapi3.NewLoader().LoadFromData(b) }); p != nil {
			viol("extras:panic", desc, fmt.Sprint(p))
			continue
		}
		if err != nil {
			continue // the property lets a load fail; it does not let it succeed with the reference unresolved
		}
		ev := doc.Components.Callbacks["Event"]
		if ev == nil || ev.Value == nil {
			viol("extras:callback-cycle-left-unresolved", desc, "components.callbacks.Event has no value")
			continue
		}
		for _, item := range ev.Value.Map() {
			if item.Post == nil {
				continue
			}
			for name, cb := range item.Post.Callbacks {
				if cb.Ref != "" && cb.Value == nil {
					viol("extras:callback-cycle-left-unresolved", desc, "the operation's callback "+name+" ("+cb.Ref+") has no value although the document loaded")
				}
			}
		}
	}
	// ---- whole-file elements in a sub-directory: a relative reference inside the file designates a
	// file of that directory, not the same-named file beside the root ----
	{
		right := `{"type":"string","description":"right"}`
		decoy := `{"type":"string","description":"decoy"}`
		media := func(inner string) string { return `{"application/json":{"schema":` + inner + `}}` }
		leafRef := `{"$ref":"leaf.json"}`
		kinds := []struct {
			kind, root, element string
			leaf                func(d *openapi3.T) *openapi3.SchemaRef
		}{
			{"schema", `"components":{"schemas":{"S":{"$ref":"sub/el.json"}}}`, `{"type":"object","properties":{"p":` + leafRef + `}}`,
				func(d *openapi3.T) *openapi3.SchemaRef { return d.Components.Schemas["S"].Value.Properties["p"] }},
			{"parameter", `"components":{"parameters":{"P":{"$ref":"sub/el.json"}}}`, `{"name":"p","in":"query","schema":` + leafRef + `}`,
				func(d *openapi3.T) *openapi3.SchemaRef { return d.Components.Parameters["P"].Value.Schema }},
			{"header", `"components":{"headers":{"H":{"$ref":"sub/el.json"}}}`, `{"schema":` + leafRef + `}`,
				func(d *openapi3.T) *openapi3.SchemaRef { return d.Components.Headers["H"].Value.Schema }},
			{"requestBody", `"components":{"requestBodies":{"B":{"$ref":"sub/el.json"}}}`, `{"content":` + media(leafRef) + `}`,
				func(d *openapi3.T) *openapi3.SchemaRef {
					return d.Components.RequestBodies["B"].Value.Content["application/json"].Schema
				}},
			{"response", `"components":{"responses":{"R":{"$ref":"sub/el.json"}}}`, `{"description":"ok","content":` + media(leafRef) + `}`,
				func(d *openapi3.T) *openapi3.SchemaRef {
					return d.Components.Responses["R"].Value.Content["application/json"].Schema
				}},
			{"callback", `"components":{"callbacks":{"C":{"$ref":"sub/el.json"}}}`,
				`{"{$request.body#/url}":{"post":{"requestBody":{"content":` + media(leafRef) + `},"responses":{"200":{"description":"ok"}}}}}`,
				func(d *openapi3.T) *openapi3.SchemaRef {
					return d.Components.Callbacks["C"].Value.Value("{$request.body#/url}").Post.RequestBody.Value.Content["application/json"].Schema
				}},
			{"operation-callback", `"paths":{"/s":{"post":{"responses":{"200":{"description":"ok"}},"callbacks":{"onEvent":{"$ref":"sub/el.json"}}}}}`,
				`{"{$request.body#/url}":{"post":{"requestBody":{"content":` + media(leafRef) + `},"responses":{"200":{"description":"ok"}}}}}`,
				func(d *openapi3.T) *openapi3.SchemaRef {
					return d.Paths.Value("/s").Post.Callbacks["onEvent"].Value.Value("{$request.body#/url}").Post.RequestBody.Value.Content["application/json"].Schema
				}},
			{"path-item", `"paths":{"/s":{"$ref":"sub/el.json"}}`, `{"get":{"responses":{"200":{"description":"ok","content":` + media(leafRef) + `}}}}`,
				func(d *openapi3.T) *openapi3.SchemaRef {
					return d.Paths.Value("/s").Get.Responses.Value("200").Value.Content["application/json"].Schema
				}},
		}
		for _, k := range kinds {
			rootText := `{"openapi":"3.0.3","info":{"title":"r","version":"1"},` + k.root
			if !strings.Contains(k.root, `"paths"`) {
				rootText += `,"paths":{}`
			}
			rootText += `}`
			store := map[string]string{"/api/root.json": rootText, "/api/sub/el.json": k.element, "/api/sub/leaf.json": right, "/api/leaf.json": decoy}
			loader := openapi3.NewLoader()
			loader.IsExternalRefsAllowed = true
			loader.ReadFromURIFunc = func(_ *openapi3.Loader, u *url.URL) ([]byte, error) {
				if d, ok := store[u.Path]; ok {
					return []byte(d), nil
				}
				return nil, fmt.Errorf("not found: %s", u)
			}
			desc := map[string]any{"kind": k.kind, "files": store}
			meta.Histogram["directed extras"]++
			var doc *openapi3.T
			var err error
			if p := catchPanic(func() { doc, err = loader.LoadFromURI(&url.URL{Path: "/api/root.json"}) }); p != nil {
				viol("extras:panic", desc, fmt.Sprint(p))
				continue
			}
			if err != nil {
				viol("extras:whole-file-element-in-a-sub-directory-does-not-load:"+k.kind, desc, err.Error())
				continue
			}
			var leaf *openapi3.SchemaRef
			if p := catchPanic(func() { leaf = k.leaf(doc) }); p != nil || leaf == nil || leaf.Value == nil {
				viol("extras:whole-file-element-in-a-sub-directory-left-unresolved:"+k.kind, desc, fmt.Sprint("the reference inside the element has no value ", p))
				continue
			}
			if leaf.Value.Description != "right" {
				viol("extras:whole-file-element-in-a-sub-directory-resolves-beside-the-root:"+k.kind, desc, "leaf.json inside sub/el.json resolved to the object described as "+leaf.Value.Description)
			}
		}
	}
	// ---- a path item that is a reference, written with empty siblings or loaded with origins recorded ----
	{
		real := `{"get":{"operationId":"real","responses":{"200":{"description":"ok"}}}}`
		for _, tc := range []struct{ name, alias string }{
			{"bare", `{"$ref":"#/paths/~1real"}`}, {"empty parameters", `{"$ref":"#/paths/~1real","parameters":[]}`}, {"empty servers", `{"$ref":"#/paths/~1real","servers":[]}`},
			{"extension sibling", `{"$ref":"#/paths/~1real","x-note":"n"}`}, {"external, extension sibling", `{"$ref":"items.json#/paths/~1thing","x-note":"n"}`},
			{"external", `{"$ref":"items.json#/paths/~1thing"}`}, {"external, empty parameters", `{"$ref":"items.json#/paths/~1thing","parameters":[]}`},
			// reusable path items kept under components (the place OpenAPI 3.1 names; in 3.0 an unknown member of components)
			{"components member", `{"$ref":"#/components/pathItems/Local"}`}, {"components member of another file", `{"$ref":"items.json#/components/pathItems/Things"}`},
			{"extension of components", `{"$ref":"#/components/x-path-items/Local"}`}, {"extension of components of another file", `{"$ref":"items.json#/components/x-path-items/Things"}`},
		} {
			for _, origins := range []bool{false, true} {
				wrong := `{"get":{"operationId":"wrong","responses":{"200":{"description":"ok"}}}}`
				root := `{"openapi":"3.0.3","info":{"title":"r","version":"1"},"paths":{"/alias":` + tc.alias + `,"/real":` + real + `},` +
					`"components":{"pathItems":{"Local":` + real + `,"Things":` + wrong + `},"x-path-items":{"Local":` + real + `,"Things":` + wrong + `}}}`
				store := map[string]string{"/api/root.json": root, "/api/items.json": `{"openapi":"3.0.3","info":{"title":"i","version":"1"},"paths":{"/thing":` + real + `},` +
					`"components":{"pathItems":{"Things":` + real + `},"x-path-items":{"Things":` + real + `}}}`}
				loader := openapi3.NewLoader()
				loader.IsExternalRefsAllowed = true
				loader.ReadFromURIFunc = func(_ *openapi3.Loader, u *url.URL) ([]byte, error) {
					if d, ok := store[u.Path]; ok {
						return []byte(d), nil
					}
					return nil, fmt.Errorf("not found: %s", u)
				}
				desc := map[string]any{"path_item": tc.alias, "include_origin": origins}
				meta.Histogram["directed extras"]++
				var doc *openapi3.T
				var err error
				openapi3.IncludeOrigin = origins
				p := catchPanic(func() { doc, err = loader.LoadFromURI(&url.URL{Path: "/api/root.json"}) })
				openapi3.IncludeOrigin = false
				if p != nil {
					viol("extras:panic", desc, fmt.Sprint(p))
					continue
				}
				if err != nil {
					viol("extras:path-item-reference-does-not-load", desc, err.Error())
					continue
				}
				if it := doc.Paths.Value("/alias"); it == nil || it.Get == nil || it.Get.OperationID != "real" {
					viol("extras:path-item-reference-left-unresolved", desc, "the path item /alias ("+tc.name+") has no GET operation after a successful load")
				}
			}
		}
	}
}
