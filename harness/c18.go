package main

// C18: openapi3gen.  Random Go types are assembled at run time with reflect (structs with tagged,
// omitempty, untagged and skipped fields; pointers, slices, maps at any level; every sized integer,
// floats, strings, byte slices, times), boundary-heavy values of each type are encoded with
// encoding/json and validated against the generated schema.  Hand-written recursive, embedded and
// `,string` types exercise what reflect.StructOf cannot build.

import (
	"encoding/json"
	"fmt"
	"math"
	"os"
	"reflect"
	"sort"
	"strings"
	"time"

	"github.com/getkin/kin-openapi/openapi3"
	"github.com/getkin/kin-openapi/openapi3gen"
)

type gtype struct {
	rt   reflect.Type
	coq  string
	desc string
	val  func(r *Rng, depth int) reflect.Value
}

func coqOptF(p *float64) string {
	if p == nil {
		return "None"
	}
	return "(Some " + coqFloat(*p) + ")"
}

func intType(rt reflect.Type, lo, hi *float64, format string, pool []int64, upool []uint64) *gtype {
	return &gtype{rt: rt, coq: fmt.Sprintf("(TInt %s %s %s)", coqOptF(lo), coqOptF(hi), coqStr(format)), desc: rt.Kind().String(),
		val: func(r *Rng, _ int) reflect.Value {
			v := reflect.New(rt).Elem()
			if upool != nil {
				v.SetUint(Pick(r, upool))
			} else {
				v.SetInt(Pick(r, pool))
			}
			return v
		}}
}

func c18Leaf(r *Rng) *gtype {
	f := func(x float64) *float64 { return &x }
	switch r.Intn(17) {
	case 0:
		return &gtype{rt: reflect.TypeOf(true), coq: "TBool", desc: "bool", val: func(r *Rng, _ int) reflect.Value { return reflect.ValueOf(r.Bool()) }}
	case 1:
		return intType(reflect.TypeOf(int(0)), nil, nil, "", []int64{0, -1, 1, math.MaxInt64, math.MinInt64, 1 << 53, 12345}, nil)
	case 2:
		return intType(reflect.TypeOf(int8(0)), f(-128), f(127), "", []int64{0, -128, 127, 5}, nil)
	case 3:
		return intType(reflect.TypeOf(int16(0)), f(-32768), f(32767), "", []int64{0, -32768, 32767, 300}, nil)
	case 4:
		return intType(reflect.TypeOf(int32(0)), nil, nil, "int32", []int64{0, math.MinInt32, math.MaxInt32, 70000}, nil)
	case 5:
		return intType(reflect.TypeOf(int64(0)), nil, nil, "int64", []int64{0, math.MinInt64, math.MaxInt64, 1<<53 + 1, -5}, nil)
	case 6:
		return intType(reflect.TypeOf(uint(0)), f(0), nil, "", nil, []uint64{0, 1, math.MaxUint64, 1 << 63})
	case 7:
		return intType(reflect.TypeOf(uint8(0)), f(0), f(255), "", nil, []uint64{0, 255, 7})
	case 8:
		return intType(reflect.TypeOf(uint16(0)), f(0), f(65535), "", nil, []uint64{0, 65535, 256})
	case 9:
		return intType(reflect.TypeOf(uint32(0)), f(0), f(4294967295), "", nil, []uint64{0, 4294967295, 65536})
	case 10:
		return intType(reflect.TypeOf(uint64(0)), f(0), f(float64(math.MaxUint64)), "", nil, []uint64{0, math.MaxUint64, 1 << 63, 1<<53 + 1})
	case 11:
		return &gtype{rt: reflect.TypeOf(float32(0)), coq: `(TFloat "float")`, desc: "float32", val: func(r *Rng, _ int) reflect.Value {
			return reflect.ValueOf(Pick(r, []float32{0, -1.5, math.MaxFloat32, math.SmallestNonzeroFloat32, 1e10, float32(math.Copysign(0, -1))}))
		}}
	case 12:
		return &gtype{rt: reflect.TypeOf(float64(0)), coq: `(TFloat "double")`, desc: "float64", val: func(r *Rng, _ int) reflect.Value {
			return reflect.ValueOf(Pick(r, []float64{0, -1.5, math.MaxFloat64, math.SmallestNonzeroFloat64, 1e300, math.Copysign(0, -1), 1 << 60}))
		}}
	case 13:
		return &gtype{rt: reflect.TypeOf(""), coq: "TString", desc: "string", val: func(r *Rng, _ int) reflect.Value {
			return reflect.ValueOf(Pick(r, []string{"", "a", "héllo", "null", "123", "<&>", "\x00", strings.Repeat("x", 300)}))
		}}
	case 14:
		return &gtype{rt: reflect.TypeOf([]byte(nil)), coq: "TBytes", desc: "[]byte", val: func(r *Rng, _ int) reflect.Value {
			return reflect.ValueOf(Pick(r, [][]byte{{}, {0}, []byte("hello"), {255, 254, 253}, []byte(strings.Repeat("b", 100))}))
		}}
	case 15:
		return &gtype{rt: reflect.TypeOf(time.Time{}), coq: "TTime", desc: "time.Time", val: func(r *Rng, _ int) reflect.Value {
			return reflect.ValueOf(Pick(r, []time.Time{{}, time.Unix(0, 0).UTC(), time.Date(2024, 2, 29, 23, 59, 59, 999999999, time.UTC),
				time.Date(1999, 12, 31, 0, 0, 0, 0, time.FixedZone("x", 5*3600+1800))}))
		}}
	}
	// a struct without tagged fields: the schema says nothing
	rt := reflect.StructOf([]reflect.StructField{{Name: "Plain", Type: reflect.TypeOf(0)}})
	return &gtype{rt: rt, coq: "(TStruct [])", desc: "struct{untagged}", val: func(r *Rng, _ int) reflect.Value {
		v := reflect.New(rt).Elem()
		v.Field(0).SetInt(int64(r.Intn(9)))
		return v
	}}
}

func c18Type(r *Rng, depth int) *gtype {
	if depth <= 0 || r.Chance(35) {
		return c18Leaf(r)
	}
	switch r.Intn(5) {
	case 0: // pointer
		e := c18Type(r, depth-1)
		return &gtype{rt: reflect.PointerTo(e.rt), coq: "(TPtr " + e.coq + ")", desc: "*" + e.desc, val: func(r *Rng, d int) reflect.Value {
			v := reflect.New(reflect.PointerTo(e.rt)).Elem()
			if r.Chance(60) {
				p := reflect.New(e.rt)
				p.Elem().Set(e.val(r, d))
				v.Set(p)
			}
			return v
		}}
	case 1: // slice
		e := c18Type(r, depth-1)
		if e.rt.Kind() == reflect.Uint8 {
			return c18Leaf(r) // []uint8 is the byte-slice case
		}
		return &gtype{rt: reflect.SliceOf(e.rt), coq: "(TSlice " + e.coq + ")", desc: "[]" + e.desc, val: func(r *Rng, d int) reflect.Value {
			n := r.Intn(3)
			v := reflect.MakeSlice(reflect.SliceOf(e.rt), n, n)
			for i := 0; i < n; i++ {
				v.Index(i).Set(e.val(r, d))
			}
			return v
		}}
	case 2: // map
		e := c18Type(r, depth-1)
		mt := reflect.MapOf(reflect.TypeOf(""), e.rt)
		return &gtype{rt: mt, coq: "(TMap " + e.coq + ")", desc: "map[string]" + e.desc, val: func(r *Rng, d int) reflect.Value {
			v := reflect.MakeMap(mt)
			for _, k := range []string{"k1", "k2", ""}[:r.Intn(4)] {
				v.SetMapIndex(reflect.ValueOf(k), e.val(r, d))
			}
			return v
		}}
	}
	// struct
	n := 1 + r.Intn(4)
	var sf []reflect.StructField
	var elems []*gtype
	type fld struct {
		name string
		omit bool
		coq  string
	}
	var tagged []fld
	for i := 0; i < n; i++ {
		e := c18Type(r, depth-1)
		name := fmt.Sprintf("F%d", i)
		f := reflect.StructField{Name: name, Type: e.rt}
		switch r.Intn(8) {
		case 0: // untagged: encoded, not in the schema
		case 1:
			f.Tag = `json:"-"`
		case 2, 3:
			jn := Pick(r, []string{"a", "b", "z-" + name, "Name", "id"}) + fmt.Sprint(i)
			f.Tag = reflect.StructTag(fmt.Sprintf(`json:"%s,omitempty"`, jn))
			tagged = append(tagged, fld{jn, true, e.coq})
		case 4:
			f.Tag = `json:",omitempty"`
			tagged = append(tagged, fld{name, true, e.coq})
		default:
			jn := Pick(r, []string{"a", "b", "z-" + name, "Name", "id"}) + fmt.Sprint(i)
			f.Tag = reflect.StructTag(fmt.Sprintf(`json:"%s"`, jn))
			tagged = append(tagged, fld{jn, false, e.coq})
		}
		sf = append(sf, f)
		elems = append(elems, e)
	}
	rt := reflect.StructOf(sf)
	sort.Slice(tagged, func(i, j int) bool { return tagged[i].name < tagged[j].name })
	var fs []string
	for _, t := range tagged {
		fs = append(fs, fmt.Sprintf("(%s, %s, %s)", coqStr(t.name), coqBool(t.omit), t.coq))
	}
	return &gtype{rt: rt, coq: "(TStruct " + coqList(fs) + ")", desc: "struct", val: func(r *Rng, d int) reflect.Value {
		v := reflect.New(rt).Elem()
		for i, e := range elems {
			if r.Chance(80) {
				v.Field(i).Set(e.val(r, d))
			} else if k := e.rt.Kind(); k == reflect.Slice || k == reflect.Map {
				v.Field(i).Set(e.val(r, d)) // slices and maps are never nil
			}
		}
		return v
	}}
}

// a zero value whose slices and maps are non-nil, recursively (the property's precondition)
func fillNonNil(v reflect.Value) {
	switch v.Kind() {
	case reflect.Slice:
		if v.IsNil() {
			v.Set(reflect.MakeSlice(v.Type(), 0, 0))
		}
		for i := 0; i < v.Len(); i++ {
			fillNonNil(v.Index(i))
		}
	case reflect.Map:
		if v.IsNil() {
			v.Set(reflect.MakeMap(v.Type()))
		}
		for _, k := range v.MapKeys() {
			nv := reflect.New(v.Type().Elem()).Elem()
			nv.Set(v.MapIndex(k))
			fillNonNil(nv)
			v.SetMapIndex(k, nv)
		}
	case reflect.Struct:
		if v.Type() == reflect.TypeOf(time.Time{}) {
			return
		}
		for i := 0; i < v.NumField(); i++ {
			if v.Field(i).CanSet() {
				fillNonNil(v.Field(i))
			}
		}
	case reflect.Pointer:
		if !v.IsNil() {
			fillNonNil(v.Elem())
		}
	}
}

func fromOpenAPI(s *openapi3.Schema, comps openapi3.Schemas, depth int) *GSchema {
	g := &GSchema{}
	if s == nil || depth > 12 {
		return g
	}
	if s.Type != nil {
		g.HasTypes, g.Types = true, append([]string{}, (*s.Type)...)
	}
	g.Nullable, g.Format, g.Min, g.Max, g.Mult = s.Nullable, s.Format, s.Min, s.Max, s.MultipleOf
	g.ExMin, g.ExMax, g.Unique, g.ReadOnly, g.WriteOnly = s.ExclusiveMin, s.ExclusiveMax, s.UniqueItems, s.ReadOnly, s.WriteOnly
	g.MinLen, g.MaxLen, g.Pattern, g.MinItems, g.MaxItems, g.MinProps, g.MaxProps = s.MinLength, s.MaxLength, s.Pattern, s.MinItems, s.MaxItems, s.MinProps, s.MaxProps
	g.Required, g.Enum, g.ApHas = s.Required, s.Enum, s.AdditionalProperties.Has
	sub := func(r *openapi3.SchemaRef) *GSchema {
		if r == nil {
			return nil
		}
		v := r.Value
		if v == nil && strings.HasPrefix(r.Ref, "#/components/schemas/") {
			if c := comps[strings.TrimPrefix(r.Ref, "#/components/schemas/")]; c != nil {
				v = c.Value
			}
		}
		return fromOpenAPI(v, comps, depth+1)
	}
	g.Items, g.Not, g.Ap = sub(s.Items), sub(s.Not), sub(s.AdditionalProperties.Schema)
	for _, x := range s.OneOf {
		g.OneOf = append(g.OneOf, sub(x))
	}
	for _, x := range s.AnyOf {
		g.AnyOf = append(g.AnyOf, sub(x))
	}
	for _, x := range s.AllOf {
		g.AllOf = append(g.AllOf, sub(x))
	}
	if len(s.Properties) > 0 {
		g.Props = map[string]*GSchema{}
		for k, x := range s.Properties {
			g.Props[k] = sub(x)
		}
	}
	return g
}

type C18Case struct {
	Seed  uint64 `json:"seed"`
	Index int    `json:"index"`
	Depth int    `json:"depth"`
	Fixed string `json:"fixed,omitempty"`             // one of the hand-written types
	Opts  string `json:"generator_options,omitempty"` // "" (default) | all-exported-fields | export-components | export-components-and-top-level | customizer-noop
}
type C18Obs struct {
	Type     string   `json:"type"`
	Schema   string   `json:"schema"`
	GenErr   string   `json:"generator_error,omitempty"`
	Values   []string `json:"values"`
	Rejected []string `json:"rejected,omitempty"`
	Problems []string `json:"problems,omitempty"`
}

// hand-written types: recursion, embedding, the `,string` option
type c18Node struct {
	Name string              `json:"name"`
	Kids []c18Node           `json:"kids"`
	Next *c18Node            `json:"next,omitempty"`
	ByID map[string]*c18Node `json:"byId"`
}
type c18Base struct {
	ID   int    `json:"id"`
	Kind string `json:"kind,omitempty"`
}
type c18Embeds struct {
	c18Base
	Extra *c18Base `json:"extra"`
	Name  string   `json:"name"`
}
type C18Pub struct {
	Pub int `json:"pub"`
}
type c18EmbedsPtr struct {
	*C18Pub
	N int8 `json:"n"`
}
type c18StringOpt struct {
	N int64   `json:"n,string"`
	B bool    `json:"b,string"`
	F float64 `json:"f,string"`
	S string  `json:"s,string"`
}
type c18Shadow struct {
	c18Base
	ID string `json:"id"` // shallower field wins in encoding/json
}

type c18ShadowLast struct {
	ID string `json:"id"` // the same, with the embedded struct declared after the field that shadows it
	c18Base
}
type c18Inner2 struct {
	c18Base
	Deep bool `json:"deep"`
}
type c18ShadowDeep struct {
	Kind int `json:"kind"` // shadows a field two levels down
	c18Inner2
}

// a named string whose name ends in Ref (not a struct: no Ref / Value fields to look for)
type c18UserRef string
type c18Holder struct {
	User  c18UserRef   `json:"user"`
	Users []c18UserRef `json:"users"`
	Opt   *c18UserRef  `json:"opt,omitempty"`
}

// slices whose element type is a named uint8: encoding/json writes them as base64 text, like []byte
type c18Color uint8
type c18Palette struct {
	Colors []c18Color            `json:"colors"`
	ByName map[string][]c18Color `json:"by_name"`
	Opt    *[]c18Color           `json:"opt,omitempty"`
	Grid   [][]c18Color          `json:"grid"`
	Plain  []byte                `json:"plain"`
}

// recursion through two pointer levels, through containers of containers, and between two types
type c18PP struct {
	Name string  `json:"name"`
	Next **c18PP `json:"next,omitempty"`
}
type c18Deep struct {
	Name string               `json:"name"`
	Rows [][]*c18Deep         `json:"rows"`
	Idx  map[string][]c18Deep `json:"idx"`
	Pair [2]*c18Deep          `json:"pair,omitempty"`
	Opt  *[]c18Deep           `json:"opt,omitempty"`
}
type c18A struct {
	ID   int    `json:"id"` // the two types of the cycle disagree on the type of "id"
	Name string `json:"name"`
	B    *c18B  `json:"b,omitempty"`
}
type c18B struct {
	ID string `json:"id"`
	N  int    `json:"n"`
	As []c18A `json:"as"`
}

// recursion through a plain slice of the type itself, reached through that same slice type
type c18Plain struct {
	Name string     `json:"name"`
	Kids []c18Plain `json:"kids"`
}
type c18Forest struct {
	Roots []c18Plain          `json:"roots"`
	ByKey map[string]c18Plain `json:"byKey"`
}

// two types that reach each other through pointers and disagree on the type of "id"
type c18Author struct {
	ID   int      `json:"id"`
	Best *c18Book `json:"best,omitempty"`
}
type c18Book struct {
	ID     string     `json:"id"`
	Author *c18Author `json:"author,omitempty"`
}

func c18Fixed(name string) (any, []any) {
	switch name {
	case "recursive-mutual-pointers":
		return c18Author{}, []any{c18Author{ID: 1, Best: &c18Book{ID: "b", Author: &c18Author{ID: 2, Best: &c18Book{ID: "c"}}}}, c18Author{ID: 3}}
	case "recursive-mutual-pointers-2":
		return c18Book{}, []any{c18Book{ID: "b", Author: &c18Author{ID: 2, Best: &c18Book{ID: "c", Author: &c18Author{ID: 4}}}}}
	case "recursive-slice-root":
		leaf := c18Plain{Name: "leaf", Kids: []c18Plain{}}
		return []c18Plain{}, []any{[]c18Plain{{Name: "a", Kids: []c18Plain{leaf, leaf}}, leaf}, []c18Plain{}}
	case "recursive-slice-field":
		leaf := c18Plain{Name: "leaf", Kids: []c18Plain{}}
		return c18Forest{}, []any{c18Forest{Roots: []c18Plain{{Name: "a", Kids: []c18Plain{leaf}}, leaf}, ByKey: map[string]c18Plain{"k": leaf}}, c18Forest{Roots: []c18Plain{}, ByKey: map[string]c18Plain{}}}
	case "recursive-plain":
		leaf := c18Plain{Name: "leaf", Kids: []c18Plain{}}
		return c18Plain{}, []any{c18Plain{Name: "a", Kids: []c18Plain{leaf}}, leaf}
	case "recursive-ptrptr":
		leaf := &c18PP{Name: "leaf"}
		mid := &c18PP{Name: "mid", Next: &leaf}
		return c18PP{}, []any{c18PP{Name: "root", Next: &mid}, c18PP{Name: "alone"}}
	case "recursive-containers":
		leaf := c18Deep{Name: "leaf", Rows: [][]*c18Deep{}, Idx: map[string][]c18Deep{}}
		l2 := leaf
		opt := []c18Deep{leaf}
		return c18Deep{}, []any{c18Deep{Name: "root", Rows: [][]*c18Deep{{&leaf, &l2}, {}}, Idx: map[string][]c18Deep{"k": {leaf}, "e": {}}, Pair: [2]*c18Deep{&leaf, &l2}, Opt: &opt}}
	case "recursive-mutual":
		return c18A{}, []any{c18A{Name: "a", B: &c18B{N: 1, As: []c18A{{Name: "inner", B: &c18B{N: 2, As: []c18A{}}}, {Name: "plain"}}}}, c18A{Name: "solo"}}
	case "recursive":
		leaf := c18Node{Name: "leaf", Kids: []c18Node{}, ByID: map[string]*c18Node{}}
		return c18Node{}, []any{c18Node{Name: "root", Kids: []c18Node{leaf, leaf}, Next: &leaf, ByID: map[string]*c18Node{"a": &leaf, "nil": nil}}, leaf}
	case "embedded":
		return c18Embeds{}, []any{c18Embeds{c18Base: c18Base{ID: 1, Kind: "k"}, Extra: &c18Base{ID: 2}, Name: "n"}, c18Embeds{}}
	case "embedded-pointer":
		return c18EmbedsPtr{}, []any{c18EmbedsPtr{C18Pub: &C18Pub{Pub: 3}, N: 1}, c18EmbedsPtr{N: -128}}
	case "string-option":
		return c18StringOpt{}, []any{c18StringOpt{N: 5, B: true, F: 1.5, S: "x"}}
	case "shadowed":
		return c18Shadow{}, []any{c18Shadow{c18Base: c18Base{ID: 1}, ID: "one"}}
	case "shadowed-embedded-last":
		return c18ShadowLast{}, []any{c18ShadowLast{c18Base: c18Base{ID: 1, Kind: "k"}, ID: "one"}, c18ShadowLast{}}
	case "shadowed-two-levels":
		return c18ShadowDeep{}, []any{c18ShadowDeep{Kind: 3, c18Inner2: c18Inner2{c18Base: c18Base{ID: 1, Kind: "k"}, Deep: true}}}
	case "named-string-ending-in-ref":
		u := c18UserRef("u")
		return c18Holder{}, []any{c18Holder{User: "a", Users: []c18UserRef{"b", ""}, Opt: &u}, c18Holder{Users: []c18UserRef{}}}
	case "named-string-ending-in-ref-root":
		return c18UserRef(""), []any{c18UserRef("a"), c18UserRef("")}
	case "named-byte-slices":
		three := []c18Color{1, 2, 3}
		return c18Palette{}, []any{c18Palette{Colors: three, ByName: map[string][]c18Color{"k": {255, 0}, "e": {}}, Opt: &three, Grid: [][]c18Color{{7}, {}}, Plain: []byte("hi")},
			c18Palette{Colors: []c18Color{}, ByName: map[string][]c18Color{}, Grid: [][]c18Color{}, Plain: []byte{}}}
	case "named-byte-slice-root":
		return []c18Color{}, []any{[]c18Color{1, 2, 3}, []c18Color{}}
	}
	return nil, nil
}

var c18FixedNames = []string{"recursive-mutual-pointers", "recursive-mutual-pointers-2", "recursive-slice-root", "recursive-slice-field", "recursive-plain", "recursive-ptrptr", "recursive-containers", "recursive-mutual", "recursive", "embedded", "embedded-pointer", "string-option", "shadowed", "shadowed-embedded-last", "shadowed-two-levels", "named-string-ending-in-ref", "named-string-ending-in-ref-root", "named-byte-slices", "named-byte-slice-root"}

func runC18(c *C18Case) (C18Obs, string) {
	var o C18Obs
	var zero any
	var values []any
	var coqTy string
	if c.Fixed != "" {
		zero, values = c18Fixed(c.Fixed)
		o.Type = c.Fixed
	} else {
		r := NewRng(c.Seed*1000003 + uint64(c.Index))
		gt := c18Type(r, c.Depth)
		zero = reflect.Zero(gt.rt).Interface()
		o.Type, coqTy = gt.desc+" "+gt.coq, gt.coq
		for i := 0; i < 6; i++ {
			v := reflect.New(gt.rt).Elem()
			v.Set(gt.val(r, c.Depth))
			fillNonNil(v)
			values = append(values, v.Interface())
		}
	}
	schemas := openapi3.Schemas{}
	var ref *openapi3.SchemaRef
	var err error
	var gopts []openapi3gen.Option
	switch c.Opts {
	case "all-exported-fields":
		gopts = append(gopts, openapi3gen.UseAllExportedFields())
	case "export-components":
		gopts = append(gopts, openapi3gen.CreateComponentSchemas(openapi3gen.ExportComponentSchemasOptions{ExportComponentSchemas: true}))
	case "export-components-and-top-level":
		gopts = append(gopts, openapi3gen.CreateComponentSchemas(openapi3gen.ExportComponentSchemasOptions{ExportComponentSchemas: true, ExportTopLevelSchema: true}))
	case "customizer-noop":
		gopts = append(gopts, openapi3gen.SchemaCustomizer(func(string, reflect.Type, reflect.StructTag, *openapi3.Schema) error { return nil }))
	}
	if p := catchPanic(func() { ref, err = openapi3gen.NewSchemaRefForValue(zero, schemas, gopts...) }); p != nil {
		o.GenErr = "panic: " + fmt.Sprint(p)
		o.Problems = append(o.Problems, "generator-panic")
		return o, ""
	}
	if err != nil || ref == nil {
		o.GenErr = fmt.Sprint(err)
		o.Problems = append(o.Problems, "generator-error")
		return o, ""
	}
	// references must resolve within the supplied component map
	doc := &openapi3.T{OpenAPI: "3.0.3", Info: &openapi3.Info{Title: "t", Version: "1"}, Paths: openapi3.NewPaths(),
		Components: &openapi3.Components{Schemas: schemas}}
	schemas["Root__"] = ref
	data, _ := json.Marshal(doc)
	loaded, lerr := openapi3.NewLoader().LoadFromData(data)
	if lerr != nil {
		o.Problems = append(o.Problems, "references-do-not-resolve")
		o.GenErr = lerr.Error()
		return o, ""
	}
	root := loaded.Components.Schemas["Root__"]
	sb, _ := json.Marshal(root.Value)
	o.Schema = string(sb)
	var vals []string
	for _, v := range values {
		b, merr := json.Marshal(v)
		if merr != nil {
			continue
		}
		var dec any
		json.Unmarshal(b, &dec)
		var verr error
		if p := catchPanic(func() { verr = root.Value.VisitJSON(dec) }); p != nil {
			verr = fmt.Errorf("panic: %v", p)
		}
		o.Values = append(o.Values, string(b))
		if verr != nil && dec != nil {
			o.Rejected = append(o.Rejected, string(b))
			o.Problems = append(o.Problems, "encoding-rejected")
		}
		vals = append(vals, fmt.Sprintf("(%s, %s)", coqJSON(normJSON(dec)), coqBool(verr == nil)))
	}
	if c.Fixed != "" {
		// the same schema and component map used in memory: references resolved in place, no writing and reading back
		schemas2 := openapi3.Schemas{}
		var ref2 *openapi3.SchemaRef
		var err2 error
		if p := catchPanic(func() { ref2, err2 = openapi3gen.NewSchemaRefForValue(zero, schemas2, gopts...) }); p == nil && err2 == nil && ref2 != nil {
			doc2 := &openapi3.T{OpenAPI: "3.0.3", Info: &openapi3.Info{Title: "t", Version: "1"}, Paths: openapi3.NewPaths(), Components: &openapi3.Components{Schemas: schemas2}}
			schemas2["Root__"] = ref2
			var rerr error
			if p := catchPanic(func() { rerr = openapi3.NewLoader().ResolveRefsIn(doc2, nil) }); p != nil || rerr != nil {
				o.Problems = append(o.Problems, "references-do-not-resolve-in-memory")
			} else if ref2.Value != nil {
				already := map[string]bool{}
				for _, r := range o.Rejected {
					already[r] = true
				}
				for _, v := range values {
					b, merr := json.Marshal(v)
					if merr != nil || already[string(b)] {
						continue
					}
					var dec any
					json.Unmarshal(b, &dec)
					var verr error
					if p := catchPanic(func() { verr = ref2.Value.VisitJSON(dec) }); p != nil {
						verr = fmt.Errorf("panic: %v", p)
					}
					if verr != nil && dec != nil {
						o.Rejected = append(o.Rejected, "in memory: "+string(b))
						o.Problems = append(o.Problems, "encoding-rejected-in-memory")
					}
				}
			}
		}
	}
	o.Problems = dedup(o.Problems)
	if c.Fixed != "" {
		return o, ""
	}
	g := fromOpenAPI(root.Value, loaded.Components.Schemas, 0)
	return o, fmt.Sprintf("mkGC %s %s %s", coqTy, g.Coq(), coqList(vals))
}

func init() {
	runners["C18"] = func(seed uint64, n int, outDir string, replay string) {
		var cases []C18Case
		if replay != "" {
			cases = loadReplayCases[C18Case](replay)
		} else {
			for _, f := range c18FixedNames {
				cases = append(cases, C18Case{Fixed: f})
			}
			// the hand-written (named) types under each generator option set
			for _, o := range []string{"all-exported-fields", "export-components", "export-components-and-top-level", "customizer-noop"} {
				for _, f := range c18FixedNames {
					cases = append(cases, C18Case{Fixed: f, Opts: o})
				}
			}
			for i := 0; i < n; i++ {
				cases = append(cases, C18Case{Seed: seed, Index: i, Depth: 1 + i%4})
			}
		}
		meta := &Meta{Property: "C18", Seed: seed, Histogram: map[string]int{}, Shard: 250,
			Rule: "hand-written recursive / embedded / `,string` / shadowed-field types + seeded random types assembled with reflect (depth 1-4: the 11 sized integers, floats, bool, string, []byte, time.Time, structs with tagged / omitempty / untagged / skipped fields, pointers, slices and maps at any level) x 6 boundary-heavy values each (integer extremes, -0, extreme floats, nil pointers, empty slices and maps, empty and long strings); the generated schema is loaded (references must resolve in the supplied component map) and every encoding validated; non-trivial = the generator produced a schema; distinct by type term"}
		seen := map[string]bool{}
		dflt := map[string]bool{}
		var terms []string
		var idx []int
		for i := range cases {
			c := &cases[i]
			o, term := runC18(c)
			if c.Fixed != "" {
				// the generator iterates Go maps: the hand-written types are generated repeatedly, each time from scratch
				for rep := 0; rep < 31 && len(o.Problems) == 0; rep++ {
					o, term = runC18(c)
				}
			}
			meta.Cases = append(meta.Cases, map[string]any{"input": c, "go": o})
			for _, p := range o.Problems {
				sig := p
				if c.Fixed != "" {
					sig = p + ":" + c.Fixed
					// a problem the type already has under the default options is that problem; one that
					// only shows under an option set carries the option in its name
					if c.Opts == "" {
						dflt[sig] = true
					} else if !dflt[sig] {
						sig += ":" + c.Opts
					}
				}
				meta.Histogram["problem:"+sig]++
				if term == "" {
					meta.GoViolation = append(meta.GoViolation, map[string]any{"signature": sig, "cases": []any{c}, "go_observation": o, "judgement": "openapi3gen: " + p})
				}
			}
			if term != "" {
				terms = append(terms, term)
				idx = append(idx, i)
				if !seen[o.Type] {
					seen[o.Type] = true
					meta.Distinct++
				}
				meta.Histogram[fmt.Sprintf("depth=%d", c.Depth)]++
			}
		}
		meta.NCases = len(cases)
		meta.Files, meta.Offsets = writeCasesInterned(outDir, "cases", "From KV Require Import Model.Base Model.Json Model.Schema Model.GoTypes Exec.C18Exec.", "gcase", "judge_C18", terms, meta.Shard)
		meta.IndexMap = idx
		// structs that embed structs, against Model/Fields.v (meta.Cases: the cases above, then these)
		if replay == "" || strings.Contains(replay, "fields") {
			var fcases []C18Fields
			if replay != "" {
				fcases = loadReplayCases[C18Fields](replay)
			} else {
				fcases = c18FieldsCases(NewRng(seed^0xf1e1d5), n/2)
			}
			var fterms []string
			for i := range fcases {
				fo, term := runC18Fields(&fcases[i])
				meta.Cases = append(meta.Cases, map[string]any{"input": map[string]any{"embedding": fcases[i]}, "go": fo})
				meta.Histogram["embedding trees"]++
				if term == "" {
					meta.GoViolation = append(meta.GoViolation, map[string]any{"signature": "embedding:" + strings.SplitN(fo.Err, ":", 2)[0], "cases": []any{fcases[i]}, "go_observation": fo, "judgement": "struct with embedded structs: " + fo.Err})
					continue
				}
				if !fo.Accepted {
					meta.Histogram["embedding trees whose encoding is rejected"]++
				}
				fterms = append(fterms, term)
				meta.IndexMap = append(meta.IndexMap, len(cases)+i)
			}
			f2, off2 := writeCasesAt(outDir, "fields", "From KV Require Import Model.Base Model.Fields Exec.C18FieldsExec.", "fcase", "judge_fields", fterms, meta.Shard, len(terms))
			meta.Files = append(meta.Files, f2...)
			meta.Offsets = append(meta.Offsets, off2...)
			meta.Histogram["embedding model comparisons"] = len(fterms)
		}
		writeMeta(outDir, meta)
		fmt.Fprintf(os.Stderr, "C18: %d cases (%d to Coq)\n", len(cases), len(terms))
	}
}
