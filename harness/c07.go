package main

import (
	"context"
	"encoding/json"
	"errors"
	"fmt"
	"io"
	"net/http"
	"net/http/httptest"
	"os"
	"sort"
	"strings"

	"github.com/getkin/kin-openapi/openapi3"
	"github.com/getkin/kin-openapi/openapi3filter"
	"github.com/getkin/kin-openapi/routers"
)

type C07Param struct {
	In       string `json:"in"`
	Name     string `json:"name"`
	Required bool   `json:"required"`
	State    string `json:"state"` // valid | invalid | absent  (how the request carries it)
	// "" an integer; "dflt" an integer with default 10; "obj" (query only) an exploded form object
	// {color: string (required), size: integer}, carried as color=red (valid) or size=1 (invalid);
	// "objap" an exploded form object with additionalProperties: boolean, carried as flag=true / flag=maybe
	Kind string `json:"kind,omitempty"`
}

type C07Case struct {
	Declared    []string    `json:"declared"`
	AuthOK      []string    `json:"auth_ok"`
	HasAuth     bool        `json:"has_auth"`
	OpSecurity  *[][]string `json:"op_security"` // nil: operation declares none
	DocSecurity [][]string  `json:"doc_security"`
	OpParams    []C07Param  `json:"op_params"`
	PathParams  []C07Param  `json:"path_params"`
	HasBody     bool        `json:"has_body"`
	BodyReq     bool        `json:"body_required"`
	BodyState   string      `json:"body_state"`         // valid | invalid | absent
	BodyVia     string      `json:"body_via,omitempty"` // "": httptest.NewRequest over a strings.Reader; "multireader": http.NewRequest over a reader of unknown type (ContentLength stays 0)
	Multi       bool        `json:"multi"`
	ExclBody    bool        `json:"excl_body"`
	ExclQuery   bool        `json:"excl_query"`
	Defaults    bool        `json:"defaults,omitempty"` // default-setting on
}

type C07Obs struct {
	OK      bool            `json:"ok"`
	Parts   []string        `json:"parts"`
	Calls   []string        `json:"calls"`
	ParamOK map[string]bool `json:"param_ok"`
	BodyOK  bool            `json:"body_ok"`
	Panic   string          `json:"panic,omitempty"`
}

func c07Requirements(rs [][]string) openapi3.SecurityRequirements {
	out := openapi3.SecurityRequirements{}
	for _, r := range rs {
		m := openapi3.SecurityRequirement{}
		for _, n := range r {
			m[n] = []string{}
		}
		out = append(out, m)
	}
	return out
}

func c07MkParam(p C07Param) *openapi3.ParameterRef {
	switch p.Kind {
	case "dflt":
		return &openapi3.ParameterRef{Value: &openapi3.Parameter{Name: p.Name, In: p.In, Required: p.Required || p.In == "path",
			Schema: openapi3.NewIntegerSchema().WithDefault(10).NewRef()}}
	case "objap":
		sch := openapi3.NewObjectSchema().WithAdditionalProperties(openapi3.NewBoolSchema())
		return &openapi3.ParameterRef{Value: &openapi3.Parameter{Name: p.Name, In: p.In, Required: p.Required, Style: "form", Explode: openapi3.BoolPtr(true), Schema: sch.NewRef()}}
	case "obj":
		sch := openapi3.NewObjectSchema().WithProperty("color", openapi3.NewStringSchema()).WithProperty("size", openapi3.NewIntegerSchema())
		sch.Required = []string{"color"}
		return &openapi3.ParameterRef{Value: &openapi3.Parameter{Name: p.Name, In: p.In, Required: p.Required, Style: "form", Explode: openapi3.BoolPtr(true), Schema: sch.NewRef()}}
	}
	return &openapi3.ParameterRef{Value: &openapi3.Parameter{Name: p.Name, In: p.In, Required: p.Required || p.In == "path",
		Schema: openapi3.NewIntegerSchema().NewRef()}}
}

type c07Built struct {
	doc   *openapi3.T
	route *routers.Route
	mkReq func() (*http.Request, map[string]string)
}

func c07Build(c *C07Case) c07Built {
	doc := &openapi3.T{OpenAPI: "3.0.0", Info: &openapi3.Info{Title: "t", Version: "1"}, Paths: openapi3.NewPaths()}
	doc.Components = &openapi3.Components{SecuritySchemes: openapi3.SecuritySchemes{}}
	for _, n := range c.Declared {
		doc.Components.SecuritySchemes[n] = &openapi3.SecuritySchemeRef{Value: openapi3.NewSecurityScheme().WithType("apiKey").WithIn("header").WithName("X-" + n)}
	}
	doc.Security = c07Requirements(c.DocSecurity)
	op := openapi3.NewOperation()
	op.Responses = openapi3.NewResponses()
	if c.OpSecurity != nil {
		s := c07Requirements(*c.OpSecurity)
		op.Security = &s
	}
	for _, p := range c.OpParams {
		op.Parameters = append(op.Parameters, c07MkParam(p))
	}
	item := &openapi3.PathItem{}
	for _, p := range c.PathParams {
		item.Parameters = append(item.Parameters, c07MkParam(p))
	}
	if c.HasBody {
		sch := openapi3.NewObjectSchema().WithProperty("x", openapi3.NewIntegerSchema())
		sch.Required = []string{"x"}
		if c.Defaults {
			// a member with a default that the body leaves out: the body is written back with it
			sch.WithProperty("d", openapi3.NewIntegerSchema().WithDefault(5))
		}
		op.RequestBody = &openapi3.RequestBodyRef{Value: openapi3.NewRequestBody().WithRequired(c.BodyReq).WithJSONSchema(sch)}
	}
	item.Post = op
	doc.Paths.Set("/r/{id}", item)
	route := &routers.Route{Spec: doc, Path: "/r/{id}", PathItem: item, Method: "POST", Operation: op}
	mkReq := func() (*http.Request, map[string]string) {
		body := ""
		switch c.BodyState {
		case "valid":
			body = `{"x":1}`
		case "invalid":
			body = `{"x":"no"}`
		}
		var req *http.Request
		if body != "" && c.BodyVia == "multireader" {
			req, _ = http.NewRequest("POST", "/r/1", io.MultiReader(strings.NewReader(body[:3]), strings.NewReader(body[3:])))
			req.Header.Set("Content-Type", "application/json")
		} else if body != "" {
			req = httptest.NewRequest("POST", "/r/1", strings.NewReader(body))
			req.Header.Set("Content-Type", "application/json")
			if c.Defaults {
				// media type parameters do not change which media type it is
				req.Header.Set("Content-Type", "application/json; charset=utf-8")
			}
		} else {
			req = httptest.NewRequest("POST", "/r/1", nil)
		}
		pp := map[string]string{}
		q := req.URL.Query()
		seen := map[string]bool{}
		for _, p := range append(append([]C07Param{}, c.OpParams...), c.PathParams...) {
			key := p.In + ":" + p.Name
			if seen[key] || p.State == "absent" {
				seen[key] = true
				continue
			}
			seen[key] = true
			val := "1"
			if p.State == "invalid" {
				val = "abc"
			}
			switch p.In {
			case "query":
				if p.Kind == "objap" {
					if p.State == "invalid" {
						q.Set("flag", "maybe")
					} else {
						q.Set("flag", "true")
					}
					break
				}
				if p.Kind == "obj" {
					if p.State == "invalid" {
						q.Set("size", "1")
					} else {
						q.Set("color", "red")
					}
					break
				}
				q.Set(p.Name, val)
			case "header":
				req.Header.Set(p.Name, val)
			case "cookie":
				req.AddCookie(&http.Cookie{Name: p.Name, Value: val})
			case "path":
				pp[p.Name] = val
			}
		}
		req.URL.RawQuery = q.Encode()
		return req, pp
	}
	return c07Built{doc, route, mkReq}
}

func runC07(c *C07Case) C07Obs {
	o := C07Obs{ParamOK: map[string]bool{}}
	b := c07Build(c)
	ctx := context.Background()
	var calls []string
	mkOpts := func(record bool) *openapi3filter.Options {
		opts := &openapi3filter.Options{MultiError: c.Multi, ExcludeRequestBody: c.ExclBody, ExcludeRequestQueryParams: c.ExclQuery, SkipSettingDefaults: !c.Defaults}
		if c.HasAuth {
			opts.AuthenticationFunc = func(_ context.Context, ai *openapi3filter.AuthenticationInput) error {
				if record {
					calls = append(calls, ai.SecuritySchemeName)
				}
				for _, n := range c.AuthOK {
					if n == ai.SecuritySchemeName {
						return nil
					}
				}
				return errors.New("denied")
			}
		}
		return opts
	}
	// oracles for the parts (their own correctness is C05 / C06)
	all := append(append([]C07Param{}, c.OpParams...), c.PathParams...)
	seen := map[string]bool{}
	for i, p := range all {
		var ref *openapi3.ParameterRef
		if i < len(c.OpParams) {
			ref = b.route.Operation.Parameters[i]
		} else {
			ref = b.route.PathItem.Parameters[i-len(c.OpParams)]
		}
		key := p.In + ":" + p.Name
		if seen[key] {
			// path-level twin of an operation parameter: same request fragment, its own definition
			key = "path-level:" + key
		}
		seen[key] = true
		req, pp := b.mkReq()
		in := &openapi3filter.RequestValidationInput{Request: req, PathParams: pp, Route: b.route, Options: mkOpts(false)}
		o.ParamOK[key] = openapi3filter.ValidateParameter(ctx, in, ref.Value) == nil
	}
	if c.HasBody {
		req, pp := b.mkReq()
		in := &openapi3filter.RequestValidationInput{Request: req, PathParams: pp, Route: b.route, Options: mkOpts(false)}
		o.BodyOK = openapi3filter.ValidateRequestBody(ctx, in, b.route.Operation.RequestBody.Value) == nil
	}
	req, pp := b.mkReq()
	in := &openapi3filter.RequestValidationInput{Request: req, PathParams: pp, Route: b.route, Options: mkOpts(true)}
	var err error
	if p := catchPanic(func() { err = openapi3filter.ValidateRequest(ctx, in) }); p != nil {
		o.Panic = fmt.Sprint(p)
	}
	o.OK = err == nil && o.Panic == ""
	o.Calls = calls
	classify := func(e error) string {
		var sre *openapi3filter.SecurityRequirementsError
		if errors.As(e, &sre) {
			return "sec"
		}
		var re *openapi3filter.RequestError
		if errors.As(e, &re) {
			if re.Parameter != nil {
				return "param:" + re.Parameter.In + ":" + re.Parameter.Name
			}
			if re.RequestBody != nil {
				return "body"
			}
		}
		return "other:" + e.Error()
	}
	if me, ok := err.(openapi3.MultiError); ok {
		for _, e := range me {
			o.Parts = append(o.Parts, classify(e))
		}
	} else if err != nil {
		o.Parts = append(o.Parts, classify(err))
	}
	return o
}

func c07LocCoq(in string) string {
	return map[string]string{"path": "LPath", "query": "LQuery", "header": "LHeader", "cookie": "LCookie"}[in]
}

func c07Coq(c *C07Case, o *C07Obs) string {
	reqs := func(rs [][]string) string {
		out := make([]string, len(rs))
		for i, r := range rs {
			s := append([]string{}, r...)
			sort.Strings(s)
			out[i] = coqStrList(s)
		}
		return coqList(out)
	}
	seen := map[string]bool{}
	params := func(ps []C07Param, level string) string {
		out := make([]string, len(ps))
		for i, p := range ps {
			key := p.In + ":" + p.Name
			if level == "path" && seen[key] {
				key = "path-level:" + key
			}
			seen[key] = true
			out[i] = fmt.Sprintf("mkParam %s %s %s", c07LocCoq(p.In), coqStr(p.Name), coqBool(o.ParamOK[key]))
		}
		return coqList(out)
	}
	opsec := "None"
	if c.OpSecurity != nil {
		opsec = "(Some " + reqs(*c.OpSecurity) + ")"
	}
	opParams := params(c.OpParams, "op")
	pathParams := params(c.PathParams, "path")
	var parts []string
	for _, p := range o.Parts {
		switch {
		case p == "sec":
			parts = append(parts, "PSec")
		case p == "body":
			parts = append(parts, "PBody")
		case strings.HasPrefix(p, "param:"):
			f := strings.SplitN(p, ":", 3)
			parts = append(parts, fmt.Sprintf("PParam %s %s", c07LocCoq(f[1]), coqStr(f[2])))
		default:
			parts = append(parts, `PParam LPath "?unclassified?"`)
		}
	}
	return fmt.Sprintf("mkC07 %s %s (mkROpts %s %s %s %s) (mkOp %s %s %s %s %s %s) %s %s %s",
		coqStrList(c.Declared), coqStrList(c.AuthOK), coqBool(c.Multi), coqBool(c.ExclBody), coqBool(c.ExclQuery), coqBool(c.HasAuth),
		opsec, reqs(c.DocSecurity), opParams, pathParams, coqBool(c.HasBody), coqBool(o.BodyOK),
		coqBool(o.OK), coqList(parts), coqStrList(o.Calls))
}

var c07Schemes = []string{"s1", "s2", "s3"}

func c07RandReqs(r *Rng) [][]string {
	n := r.Intn(4)
	out := [][]string{}
	for i := 0; i < n; i++ {
		k := r.Intn(4)
		set := map[string]bool{}
		for j := 0; j < k; j++ {
			set[Pick(r, c07Schemes)] = true
		}
		var l []string
		for s := range set {
			l = append(l, s)
		}
		sort.Strings(l)
		out = append(out, l)
	}
	return out
}

func c07RandParams(r *Rng, max int, allowPath bool) []C07Param {
	n := r.Intn(max + 1)
	seen := map[string]bool{}
	var out []C07Param
	for i := 0; i < n; i++ {
		p := C07Param{In: Pick(r, []string{"query", "query", "header", "cookie", "path"}), Name: Pick(r, []string{"a", "b", "id"}), Required: r.Chance(40),
			State: Pick(r, []string{"valid", "valid", "invalid", "absent"})}
		if (p.In == "query" || p.In == "cookie") && r.Chance(25) {
			// query and cookie names are case-sensitive: "A" is another parameter than "a"
			p.Name = Pick(r, []string{"A", "Id", "B"})
		}
		if p.In == "path" {
			p.Name = "id"
			if !allowPath {
				continue
			}
		}
		if seen[p.In+":"+p.Name] {
			continue
		}
		seen[p.In+":"+p.Name] = true
		out = append(out, p)
	}
	return out
}

func c07Random(r *Rng) C07Case {
	c := C07Case{HasAuth: r.Chance(85), Multi: r.Bool(), ExclBody: r.Chance(20), ExclQuery: r.Chance(25)}
	for _, s := range c07Schemes {
		if r.Chance(75) {
			c.Declared = append(c.Declared, s)
		}
		if r.Chance(60) {
			c.AuthOK = append(c.AuthOK, s)
		}
	}
	c.DocSecurity = c07RandReqs(r)
	if r.Chance(55) {
		s := c07RandReqs(r)
		c.OpSecurity = &s
	}
	c.OpParams = c07RandParams(r, 3, true)
	c.PathParams = c07RandParams(r, 3, true)
	// the request carries one value per (in,name): make twins agree on the state
	state := map[string]string{}
	for i := range c.OpParams {
		state[c.OpParams[i].In+":"+c.OpParams[i].Name] = c.OpParams[i].State
	}
	for i := range c.PathParams {
		if s, ok := state[c.PathParams[i].In+":"+c.PathParams[i].Name]; ok {
			c.PathParams[i].State = s
		}
	}
	c.HasBody = r.Chance(60)
	c.BodyReq = r.Bool()
	c.BodyState = Pick(r, []string{"valid", "valid", "invalid", "absent"})
	if r.Chance(20) {
		c.BodyVia = "multireader"
	}
	if r.Chance(25) {
		// default-setting on: an absent parameter with a default (its default is written into the
		// request) next to an optional exploded object parameter, which shares the query with it
		c.Defaults = true
		d := C07Param{In: Pick(r, []string{"query", "query", "header", "cookie"}), Name: "limit", State: Pick(r, []string{"absent", "absent", "valid"}), Kind: "dflt"}
		o := C07Param{In: "query", Name: "filter", State: Pick(r, []string{"absent", "absent", "valid", "invalid"}), Kind: "obj", Required: r.Chance(20)}
		if r.Bool() {
			c.PathParams = append([]C07Param{d}, c.PathParams...)
		} else {
			c.OpParams = append([]C07Param{d}, c.OpParams...)
		}
		if r.Chance(40) {
			// an object that takes every key of the query as a member (additionalProperties: boolean):
			// it is absent only when the query is empty, so no other parameter is carried in the query
			o.Kind, o.Required = "objap", false
			for _, l := range []*[]C07Param{&c.OpParams, &c.PathParams} {
				for i := range *l {
					if (*l)[i].In == "query" {
						(*l)[i].State = "absent"
					}
				}
			}
		}
		if r.Bool() {
			c.OpParams = append(c.OpParams, o)
		} else {
			c.PathParams = append(c.PathParams, o)
		}
	}
	return c
}

func c07Directed() []C07Case {
	var out []C07Case
	e := [][]string{}
	for _, multi := range []bool{false, true} {
		base := C07Case{Declared: []string{"s1", "s2"}, AuthOK: []string{"s1"}, HasAuth: true, Multi: multi, DocSecurity: e, BodyState: "absent"}
		add := func(f func(c *C07Case)) {
			c := base
			f(&c)
			out = append(out, c)
		}
		add(func(c *C07Case) {})
		add(func(c *C07Case) { c.DocSecurity = [][]string{{"s1"}} })
		add(func(c *C07Case) { c.DocSecurity = [][]string{{"s2"}} })
		add(func(c *C07Case) { c.DocSecurity = [][]string{{"s2"}, {"s1"}} })
		add(func(c *C07Case) { c.DocSecurity = [][]string{{"s1", "s2"}} })
		add(func(c *C07Case) { c.DocSecurity = [][]string{{"s2"}}; s := [][]string{}; c.OpSecurity = &s })
		add(func(c *C07Case) { c.DocSecurity = [][]string{{"s2"}}; s := [][]string{{}}; c.OpSecurity = &s })
		add(func(c *C07Case) { s := [][]string{{}}; c.OpSecurity = &s; c.HasAuth = false })
		add(func(c *C07Case) { c.DocSecurity = [][]string{{"s3"}} })
		add(func(c *C07Case) { c.DocSecurity = [][]string{{"s3"}, {"s1"}}; c.AuthOK = []string{"s1", "s3"} })
		add(func(c *C07Case) { c.DocSecurity = [][]string{{"s1"}}; c.HasAuth = false })
		add(func(c *C07Case) {
			c.OpParams = []C07Param{{In: "query", Name: "a", State: "invalid"}}
			c.PathParams = []C07Param{{In: "query", Name: "a", State: "invalid", Required: true}, {In: "header", Name: "b", State: "invalid"}}
		})
		add(func(c *C07Case) {
			c.ExclQuery = true
			c.OpParams = []C07Param{{In: "query", Name: "a", State: "invalid"}}
			c.PathParams = []C07Param{{In: "query", Name: "b", State: "invalid"}}
		})
		add(func(c *C07Case) { c.HasBody, c.BodyReq, c.BodyState = true, true, "absent" })
		add(func(c *C07Case) { c.HasBody, c.BodyReq, c.BodyState, c.BodyVia = true, true, "valid", "multireader" })
		add(func(c *C07Case) { c.HasBody, c.BodyReq, c.BodyState, c.BodyVia = true, false, "invalid", "multireader" })
		add(func(c *C07Case) { c.HasBody, c.BodyReq, c.BodyState, c.ExclBody = true, true, "invalid", true })
		add(func(c *C07Case) {
			c.HasBody, c.BodyState = true, "invalid"
			c.DocSecurity = [][]string{{"s2"}}
			c.OpParams = []C07Param{{In: "path", Name: "id", State: "invalid"}, {In: "cookie", Name: "a", State: "absent", Required: true}}
		})
	}
	return out
}

func init() {
	runners["C07"] = func(seed uint64, n int, outDir string, replay string) {
		var cases []C07Case
		if replay != "" {
			cases = loadReplayCases[C07Case](replay)
		} else {
			cases = append(loadCorpus[C07Case]("C07"), c07Directed()...)
			r := NewRng(seed)
			for i := 0; i < n; i++ {
				cases = append(cases, c07Random(r))
			}
		}
		meta := &Meta{Property: "C07", Seed: seed, Histogram: map[string]int{}, Shard: 1500,
			Rule: "directed security/override/exclusion shapes + seeded random operations (0-3 requirements x 0-3 schemes, 0-3+0-3 parameters, body) x option sets; non-trivial = at least one security requirement or parameter or body is present; distinct by JSON of the case"}
		seen := map[string]bool{}
		var terms []string
		for i := range cases {
			c := &cases[i]
			o := runC07(c)
			terms = append(terms, c07Coq(c, &o))
			meta.Cases = append(meta.Cases, map[string]any{"input": c, "go": o})
			key, _ := json.Marshal(c)
			if (len(c.DocSecurity) > 0 || c.OpSecurity != nil || len(c.OpParams)+len(c.PathParams) > 0 || c.HasBody) && !seen[string(key)] {
				seen[string(key)] = true
				meta.Distinct++
			}
			meta.Histogram[fmt.Sprintf("ok=%v", o.OK)]++
			meta.Histogram[fmt.Sprintf("multi=%v", c.Multi)]++
			meta.Histogram[fmt.Sprintf("failing_parts=%d", len(o.Parts))]++
			meta.Histogram[fmt.Sprintf("auth_calls=%d", len(o.Calls))]++
			if o.Panic != "" {
				meta.GoViolation = append(meta.GoViolation, map[string]any{"signature": "panic", "cases": []any{c}, "go_observation": o, "judgement": "ValidateRequest panicked"})
			}
			// the body part's verdict is an oracle of the model (ValidateRequestBody called directly): it is
			// itself checked against what the body was built to be
			if c.HasBody {
				want := c.BodyState == "valid" || (c.BodyState == "absent" && !c.BodyReq)
				if o.BodyOK != want {
					meta.GoViolation = append(meta.GoViolation, map[string]any{"signature": "body-part-verdict", "cases": []any{c}, "go_observation": o,
						"judgement": fmt.Sprintf("the %s body (required=%v) got verdict ok=%v from ValidateRequestBody", c.BodyState, c.BodyReq, o.BodyOK)})
				}
				if c.BodyVia != "" {
					meta.Histogram["body through a reader of unknown type"]++
				}
			}
		}
		if replay == "" {
			c07Loaded(meta)
			c07LoadedExtras(meta)
			validationHandlerOracles(meta)
		}
		meta.NCases = len(cases)
		meta.Files = writeCases(outDir, "From KV Require Import Model.Base Model.Request Exec.C07Exec.", "c07case", "judge", terms, meta.Shard)
		writeMeta(outDir, meta)
		fmt.Fprintf(os.Stderr, "C07: %d cases\n", len(cases))
	}
}
