package main

// C16: InternalizeRefs.  Multi-file stores (the C02 generator, references that load), each
// internalised in a child process (the operation can fail to terminate); direct oracles on the
// result: self-contained, reloadable with external references disallowed, same resolved objects at
// every reference position, same validation verdict.  The Coq side owns the name derivation and
// the abstract add-to-components step.

import (
	"context"
	"crypto/sha1"
	"encoding/json"
	"fmt"
	"net/url"
	"os"
	"sort"
	"strings"
	"time"

	"github.com/getkin/kin-openapi/openapi3"
)

type C16Obs struct {
	Skip     string      `json:"skipped,omitempty"` // the store does not load: nothing to internalise
	Problems []string    `json:"problems,omitempty"`
	Names    [][3]string `json:"names,omitempty"` // collection, resolved location#fragment, derived component name
}

func c16Load(c *LCase, data []byte, allow bool) (*openapi3.T, error) {
	loader := openapi3.NewLoader()
	loader.IsExternalRefsAllowed = allow
	loader.ReadFromURIFunc = func(_ *openapi3.Loader, u *url.URL) ([]byte, error) {
		if b, ok := c.fileBytes(u.String()); ok {
			return b, nil
		}
		return nil, fmt.Errorf("no such file: %s", u.String())
	}
	if data != nil {
		return loader.LoadFromData(data)
	}
	u, _ := url.Parse(c.Root)
	b, _ := c.fileBytes(c.Root)
	doc, err := loader.LoadFromDataWithPath(b, u)
	// the location belongs to the caller again once the load has returned: what becomes of it is
	// no concern of the document (InternalizeRefs names components after the location the document was loaded from)
	// (here: to name another file of the same store, the worst it can become)
	u.Fragment = "x"
	for _, f := range c.Files {
		if f.URI != c.Root {
			if o, perr := url.Parse(f.URI); perr == nil {
				u.Scheme, u.Host, u.Path = o.Scheme, o.Host, o.Path
				break
			}
		}
	}
	return doc, err
}

var c16Containers = map[string]bool{"schemas": true, "parameters": true, "headers": true, "requestBodies": true, "responses": true, "examples": true,
	"links": true, "callbacks": true, "securitySchemes": true, "properties": true, "content": true, "paths": true, "encoding": true}

// every external reference left in the tree, with its generalised position (last three steps, container keys as *)
func externalRefsIn(v any, path []string, out *[]string) {
	switch x := v.(type) {
	case map[string]any:
		if r, ok := x["$ref"].(string); ok && !strings.HasPrefix(r, "#/components/") {
			p := path
			if len(p) > 3 {
				p = p[len(p)-3:]
			}
			*out = append(*out, strings.Join(p, "."))
		}
		for k, e := range x {
			if strings.HasPrefix(k, "x-") {
				continue // extension areas are data
			}
			step := k
			if len(path) > 0 && c16Containers[path[len(path)-1]] {
				step = "*"
			}
			externalRefsIn(e, append(append([]string{}, path...), step), out)
		}
	case []any:
		for _, e := range x {
			externalRefsIn(e, append(append([]string{}, path...), "*"), out)
		}
	}
}

// one case, in the child: returns a JSON C16Obs, "EXIT"-suffixed after a timeout
func c16One(c *LCase) string {
	var o C16Obs
	phase := func(name string) { fmt.Printf("phase %s\n", name); os.Stdout.Sync() }
	emit := func(exit bool) string {
		sort.Strings(o.Problems)
		o.Problems = dedup(o.Problems)
		b, _ := json.Marshal(o)
		if exit {
			return string(b) + "EXIT"
		}
		return string(b)
	}
	orig, err := c16Load(c, nil, true)
	if err != nil {
		o.Skip = "does not load"
		return emit(false)
	}
	obs0 := observeAll(orig)
	phase("validate-original")
	v0 := orig.Validate(context.Background()) == nil
	phase("internalize")
	doc, _ := c16Load(c, nil, true)
	// the names the default resolver derives, for the Coq model of the derivation
	done := make(chan any, 1)
	go func() { done <- catchPanic(func() { doc.InternalizeRefs(context.Background(), nil) }) }()
	select {
	case p := <-done:
		if p != nil {
			msg := "other"
			if strings.Contains(fmt.Sprint(p), "nil pointer") {
				msg = "nil-dereference"
			} else if strings.Contains(fmt.Sprint(p), "unable to resolve reference to name") {
				msg = "unable-to-resolve-name"
			}
			o.Problems = append(o.Problems, "panic:"+msg)
			return emit(false)
		}
	case <-time.After(2 * time.Second):
		o.Problems = append(o.Problems, "hang")
		return emit(true)
	}
	phase("marshal")
	data, err := doc.MarshalJSON()
	if err != nil {
		o.Problems = append(o.Problems, "marshal-error")
		return emit(false)
	}
	var tree any
	json.Unmarshal(data, &tree)
	var ext []string
	externalRefsIn(tree, nil, &ext)
	if len(ext) > 0 {
		o.Problems = append(o.Problems, "external-ref-remains")
	}
	phase("reload")
	re, err := c16Load(c, data, false)
	if err != nil {
		if len(ext) == 0 {
			o.Problems = append(o.Problems, "reload-fails")
		}
		return emit(false)
	}
	obs1 := observeAll(re)
	for k, v := range obs0 {
		w, ok := obs1[k]
		switch {
		case !ok:
			if v != nil {
				o.Problems = append(o.Problems, "position-lost")
			}
		case (v == nil) != (w == nil):
			o.Problems = append(o.Problems, "resolution-differs")
		case v != nil && *v != *w:
			o.Problems = append(o.Problems, "resolves-to-other-object")
		}
	}
	phase("validate-internalized")
	if v1 := re.Validate(context.Background()) == nil; v1 != v0 {
		o.Problems = append(o.Problems, "validation-verdict-changes")
	}
	return emit(false)
}

func init() {
	runners["C16child"] = func(seed uint64, n int, outDir string, replay string) {
		cases := loadReplayCases[LCase](replay)
		for i := int(seed); i < len(cases); i++ {
			fmt.Printf("start %d\n", i)
			os.Stdout.Sync()
			// watchdog: loading and validating may not terminate either
			wd := time.AfterFunc(6*time.Second, func() {
				fmt.Printf("done %d {\"problems\":[\"hang\"]}\n", i)
				os.Stdout.Sync()
				os.Exit(3)
			})
			r := c16One(&cases[i])
			wd.Stop()
			fmt.Printf("done %d %s\n", i, strings.TrimSuffix(r, "EXIT"))
			os.Stdout.Sync()
			if strings.HasSuffix(r, "EXIT") {
				os.Exit(3)
			}
		}
	}
	runners["C16"] = func(seed uint64, n int, outDir string, replay string) {
		var cases []LCase
		if replay != "" {
			cases = loadReplayCases[LCase](replay)
		} else {
			cases = append(loadCorpus[LCase]("C16"), c16Directed()...)
			r := NewRng(seed)
			for len(cases) < n {
				c := lRandom(r)
				c.Allow, c.Entry = true, 2
				cases = append(cases, c)
			}
		}
		meta := &Meta{Property: "C16", Seed: seed, Histogram: map[string]int{}, Shard: 400,
			Rule: "directed layouts (component that is itself an external reference under its own name, names that collide after sanitising, the same file under two spellings, references back into the root, nested directories) + the seeded multi-file stores of C02 (all references allowed); each loadable store is internalised in a child process (2 s timeout), marshalled, reloaded with external references disallowed and compared position by position (ids) and by validation verdict; non-trivial = the store loads and has at least one external reference; distinct by JSON of the case"}
		res := runInChildren("C16child", cases, outDir)
		var terms []string
		seen := map[string]bool{}
		baseline := map[string][]string{}
		defer func() {
			if os.Getenv("VERIF_WRITE_BASELINE") != "" {
				b, _ := json.MarshalIndent(baseline, "", " ")
				os.WriteFile(os.Getenv("VERIF_WRITE_BASELINE"), b, 0o644)
			}
		}()
		for i := range cases {
			c := &cases[i]
			var o C16Obs
			txt := res[i]
			if strings.HasPrefix(txt, "fatal") {
				f := strings.Fields(txt)
				ph := f[len(f)-1]
				if ph == "validate-original" {
					o.Skip = "validating the original overflows the stack (C20)"
				} else {
					o.Problems = []string{"fatal:" + ph}
				}
			} else {
				json.Unmarshal([]byte(txt), &o)
			}
			meta.Cases = append(meta.Cases, map[string]any{"input": c, "go": o})
			if o.Skip != "" {
				meta.Histogram["skipped:"+o.Skip]++
				continue
			}
			key, _ := json.Marshal(c)
			caseKey := fmt.Sprintf("%x", sha1.Sum(key))
			if !seen[string(key)] {
				seen[string(key)] = true
				meta.Distinct++
			}
			if len(o.Problems) == 0 {
				meta.Histogram["equivalent"]++
			}
			baseline[caseKey] = append([]string{}, o.Problems...)
			meta.CaseKeys = append(meta.CaseKeys, caseKey)
			for _, p := range o.Problems {
				meta.Histogram["problem:"+p]++
				meta.GoViolation = append(meta.GoViolation, map[string]any{"signature": p, "case_key": caseKey, "cases": []any{c}, "go_observation": o, "judgement": "after InternalizeRefs: " + p})
			}
		}
		meta.NCases = len(cases)
		// the name derivation is compared on a fixed table of (root path, resolved path, fragment, collection) tuples
		terms = c16NameCases()
		meta.Files, meta.Offsets = writeCasesInterned(outDir, "cases", "From KV Require Import Model.Base Model.Internalize Exec.C16Exec.", "ncase", "judge_C16", terms, 400)
		meta.IndexMap = nil
		writeMeta(outDir, meta)
		fmt.Fprintf(os.Stderr, "C16: %d cases, %d name cases\n", len(cases), len(terms))
	}
}

type fakeRef struct {
	ref, coll string
	path      *url.URL
}

func (f fakeRef) RefString() string      { return f.ref }
func (f fakeRef) RefPath() *url.URL      { return f.path }
func (f fakeRef) CollectionName() string { return f.coll }

// DefaultRefNameResolver on documents without components (so that only the derivation runs)
func c16NameCases() []string {
	var out []string
	roots := []string{"/api/root.json", "/root.yaml", "/a/b/c/spec.json", ""}
	files := []string{"/api/ext.json", "/api/sub/deep.yaml", "/shared.json", "/api/a_b.json", "/api/a/b.json", "/api/a.b.json", "/api/a.b.c.yaml", "/other/x y.json",
		"/api/root.json", "/api/../x.json", "/api/sub/", "/a/b/c/d/e.json", "/a/b/x.json", "/a/x.json", "/x.json", "/api/é.json", "/api/.hidden.json", "/api/sub/.json"}
	frags := []string{"", "/components/schemas/A", "/components/schemas/a_b", "/components/schemas/A/properties/x", "/components/responses/R", "/x-defs/Thing", "/components/schemas/", "/components/schemasX", "/paths/~1a/get", "/components/schemas/A.B"}
	colls := []string{"schemas", "responses"}
	for _, root := range roots {
		for _, f := range files {
			for _, fr := range frags {
				for _, coll := range colls {
					doc := &openapi3.T{}
					if root != "" {
						data := []byte(`{"openapi":"3.0.3","info":{"title":"t","version":"1"},"paths":{}}`)
						u, _ := url.Parse(root)
						d, err := openapi3.NewLoader().LoadFromDataWithPath(data, u)
						if err != nil {
							continue
						}
						doc = d
					}
					u := &url.URL{Path: f, Fragment: fr}
					var name string
					pan := catchPanic(func() { name = openapi3.DefaultRefNameResolver(doc, fakeRef{ref: "x.json#" + fr, coll: coll, path: u}) })
					code := 0
					if pan != nil {
						code = 1
					}
					out = append(out, fmt.Sprintf("mkNC %s %s %s %s %s %d%%N", coqStr(root), coqStr(f), coqStr(fr), coqStr(coll), coqStr(name), code))
				}
			}
		}
	}
	return out
}

func c16Directed() []LCase {
	mk := func(files ...LFile) LCase {
		c := LCase{Allow: true, Entry: 2, Root: files[0].URI, Files: files}
		b, _ := json.Marshal(c.Files)
		c.Files = nil
		must(json.Unmarshal(b, &c.Files))
		return c
	}
	doc := func(uri string, comps map[string]any, paths map[string]any) LFile {
		if paths == nil {
			paths = map[string]any{}
		}
		return LFile{URI: uri, Doc: jobj("openapi", "3.0.3", "info", jobj("title", "t", "version", "1"), "components", comps, "paths", paths)}
	}
	obj := func(id int, kv ...any) map[string]any {
		m := jobj(kv...)
		m["description"] = fmt.Sprintf("id%d", id)
		m["type"] = "object"
		return m
	}
	op := func(resp any) map[string]any { return jobj("/a", jobj("get", jobj("responses", jobj("200", resp)))) }
	return []LCase{
		// a top-level component response that is itself an external reference, under the name the resolver derives
		mk(doc("/api/root.json", jobj("responses", jobj("resp", jobj("$ref", "resp.json"))), op(jobj("$ref", "#/components/responses/resp"))),
			LFile{URI: "/api/resp.json", Single: jobj("x-kind", "response", "description", "id2")}),
		mk(doc("/api/root.json", jobj("responses", jobj("R", jobj("$ref", "ext.json#/components/responses/R"))), op(jobj("$ref", "#/components/responses/R"))),
			doc("/api/ext.json", jobj("responses", jobj("R", jobj("description", "id3"))), nil)),
		// two targets whose derived names collide: a_b.json and a/b.json
		mk(doc("/api/root.json", jobj("schemas", jobj("S", obj(1, "properties", jobj("x", jobj("$ref", "a_b.json"), "y", jobj("$ref", "a/b.json"))))), nil),
			LFile{URI: "/api/a_b.json", Single: obj(2)}, LFile{URI: "/api/a/b.json", Single: obj(3)}),
		mk(doc("/api/root.json", jobj("schemas", jobj("S", obj(1, "properties", jobj("x", jobj("$ref", "ext.json#/components/schemas/B"), "y", jobj("$ref", "ext_B.json"))))), nil),
			doc("/api/ext.json", jobj("schemas", jobj("B", obj(2))), nil), LFile{URI: "/api/ext_B.json", Single: obj(3)}),
		// the same file under two spellings, and a reference back into the root
		mk(doc("/api/root.json", jobj("schemas", jobj("K", obj(9), "S", obj(1, "properties", jobj("x", jobj("$ref", "ext.json#/components/schemas/E"), "y", jobj("$ref", "./sub/../ext.json#/components/schemas/E"))))), nil),
			doc("/api/ext.json", jobj("schemas", jobj("E", obj(2, "properties", jobj("back", jobj("$ref", "root.json#/components/schemas/K"))))), nil)),
		// an external component named like a root component
		mk(doc("/api/root.json", jobj("schemas", jobj("ext_E", obj(7), "S", obj(1, "items", jobj("$ref", "ext.json#/components/schemas/E")))), nil),
			doc("/api/ext.json", jobj("schemas", jobj("E", obj(2))), nil)),
		// a whole-file reference among the root's components and references to elements inside that file
		mk(doc("/api/root.json", jobj("schemas", jobj("Account", obj(1, "properties", jobj("owner", jobj("$ref", "record.json#/properties/name"), "all", jobj("$ref", "record.json"))),
			"Record", jobj("$ref", "record.json"), "Zebra", obj(5, "properties", jobj("n", jobj("$ref", "record.json#/properties/name"), "k", jobj("$ref", "record.json#/properties/kind"))))), nil),
			LFile{URI: "/api/record.json", Single: obj(2, "properties", jobj("name", obj(3), "kind", obj(4)))}),
		mk(doc("/api/root.json", jobj("responses", jobj("Again", jobj("$ref", "resp.json"), "Plain", jobj("description", "id9", "headers", jobj("H", jobj("$ref", "resp.json#/headers/H"))))),
			op(jobj("$ref", "resp.json"))),
			LFile{URI: "/api/resp.json", Single: jobj("x-kind", "response", "description", "id2", "headers", jobj("H", jobj("description", "id3", "schema", obj(4))))}),
		mk(doc("/api/root.json", jobj("parameters", jobj("A", jobj("name", "a", "in", "query", "description", "id1", "schema", jobj("$ref", "defs.json#/components/schemas/S/properties/x")),
			"B", jobj("name", "b", "in", "query", "description", "id5", "schema", jobj("$ref", "defs.json#/components/schemas/S"))), "schemas", jobj("S", jobj("$ref", "defs.json#/components/schemas/S"))), nil),
			doc("/api/defs.json", jobj("schemas", jobj("S", obj(2, "properties", jobj("x", obj(3))))), nil)),
		// nested: an external schema with internal references of its own
		mk(doc("/api/root.json", jobj(), op(jobj("description", "id1", "content", jobj("application/json", jobj("schema", jobj("$ref", "sub/deep.json#/components/schemas/D")))))),
			doc("/api/sub/deep.json", jobj("schemas", jobj("D", obj(2, "properties", jobj("e", jref("schemas", "E"))), "E", obj(3, "items", jobj("$ref", "../one.json")))), nil),
			LFile{URI: "/api/one.json", Single: obj(4)}),
	}
}
