package main

import (
	"encoding/json"
	"errors"
	"fmt"
	"os"
	"reflect"
	"regexp"
	"sort"
	"strconv"
	"strings"

	"context"
	"net/http"
	"net/http/httptest"

	"github.com/getkin/kin-openapi/openapi3"
	"github.com/getkin/kin-openapi/openapi3filter"
	"github.com/getkin/kin-openapi/routers"
)

type SCase struct {
	// a pattern judged against Model/Pattern.v (harness/c01pat.go); the other fields are then unused
	Pat    *PatCase `json:"pattern_units,omitempty"`
	Schema *GSchema `json:"schema"`
	Value  any      `json:"value"`
	Mode   int      `json:"mode,omitempty"` // 0 plain, 1 asreq, 2 asreq without read-only checks, 3 asrep, 4 asrep without write-only checks
}

func (c *SCase) modeOpts() []openapi3.SchemaValidationOption {
	switch c.Mode {
	case 1:
		return []openapi3.SchemaValidationOption{openapi3.VisitAsRequest()}
	case 2:
		return []openapi3.SchemaValidationOption{openapi3.VisitAsRequest(), openapi3.DisableReadOnlyValidation()}
	case 3:
		return []openapi3.SchemaValidationOption{openapi3.VisitAsResponse()}
	case 4:
		return []openapi3.SchemaValidationOption{openapi3.VisitAsResponse(), openapi3.DisableWriteOnlyValidation()}
	}
	return nil
}

type SErr struct {
	Field   string   `json:"field"`   // "" for non-schema errors
	Pointer []string `json:"pointer"` // JSONPointer()
	Value   any      `json:"value"`
	Reason  string   `json:"reason"`
	Plain   string   `json:"plain,omitempty"`
}

type SObs struct {
	Default    int      `json:"default"` // 0 nil, 1 error, 2 panic
	Failfast   int      `json:"failfast"`
	Multi      int      `json:"multi"`
	IsMatching int      `json:"is_matching"`
	DefErr     []SErr   `json:"default_errors,omitempty"` // top-level error (one, or members if multi-error)
	MultiErrs  []SErr   `json:"multi_errors,omitempty"`
	PtrBad     []string `json:"pointer_violations,omitempty"` // direct C12 oracle on the Go side
	Read       string   `json:"read_from_json,omitempty"`     // the same schema read from its JSON text: verdict unlike the schema built in memory
	Typed      string   `json:"typed_entry_point,omitempty"`  // IsMatchingJSONBoolean/Number/String/Array/Object: verdict unlike IsMatching
	ModeMix    string   `json:"mode_mix,omitempty"`           // FailFast()+MultiErrors() together: verdict unlike FailFast() alone
	Leaks      []string `json:"leaks,omitempty"`              // direct C19 oracle on the Go side
	Reasons    []string `json:"reasons,omitempty"`
	Panics     []string `json:"panics,omitempty"`
}

func classOf(err error, p any) int {
	if p != nil {
		return 2
	}
	if err != nil {
		return 1
	}
	return 0
}

// topErrors flattens a returned error into its top-level members
func topErrors(err error) []error {
	if err == nil {
		return nil
	}
	if me, ok := err.(openapi3.MultiError); ok {
		var out []error
		for _, e := range me {
			out = append(out, topErrors(e)...)
		}
		return out
	}
	return []error{err}
}

func toSErr(e error) SErr {
	var se *openapi3.SchemaError
	if s, ok := e.(*openapi3.SchemaError); ok {
		se = s
		return SErr{Field: se.SchemaField, Pointer: append([]string{}, se.JSONPointer()...), Value: se.Value, Reason: se.Reason}
	}
	return SErr{Plain: e.Error()}
}

// allReasons walks the whole error tree (members, origins, wrapped errors)
func allReasons(err error, out *[]string, depth int) {
	if err == nil || depth > 50 {
		return
	}
	switch e := err.(type) {
	case openapi3.MultiError:
		for _, x := range e {
			allReasons(x, out, depth+1)
		}
		return
	case *openapi3.SchemaError:
		*out = append(*out, e.Reason)
		allReasons(e.Origin, out, depth+1)
		return
	}
	if u, ok := err.(interface{ Unwrap() []error }); ok {
		for _, x := range u.Unwrap() {
			allReasons(x, out, depth+1)
		}
		return
	}
	allReasons(errors.Unwrap(err), out, depth+1)
}

func jsonLookup(v any, ptr []string) (any, bool) {
	for _, t := range ptr {
		switch x := v.(type) {
		case map[string]any:
			e, ok := x[t]
			if !ok {
				return nil, false
			}
			v = e
		case []any:
			i, err := strconv.Atoi(t)
			if err != nil || i < 0 || i >= len(x) {
				return nil, false
			}
			v = x[i]
		default:
			return nil, false
		}
	}
	return v, true
}

// pointerOK is the C12 statement for one schema error, evaluated directly on the Go objects
func pointerOK(root any, se *openapi3.SchemaError) bool {
	ptr := se.JSONPointer()
	if se.SchemaField == "required" && len(ptr) > 0 {
		ptr = ptr[:len(ptr)-1]
	}
	at, ok := jsonLookup(root, ptr)
	if !ok {
		return false
	}
	return reflect.DeepEqual(at, se.Value)
}

func schemaStrings(g *GSchema) map[string]bool {
	out := map[string]bool{}
	g.walk(func(s *GSchema) {
		out[s.Pattern], out[s.Format] = true, true
		for _, t := range s.Types {
			out[t] = true
		}
		for _, k := range s.Required {
			out[k] = true
		}
		for k := range s.Props {
			out[k] = true
		}
		for _, e := range s.Enum {
			walkJSON(normJSON(e), func(x any) {
				switch y := x.(type) {
				case string:
					out[y] = true
				case bool, float64:
					// a reason that lists the allowed values spells booleans and numbers of the schema too:
					// a string leaf of the value that reads the same ("true" next to the member true) is not disclosed by it
					b, _ := json.Marshal(y)
					out[string(b)] = true
					out[fmt.Sprint(y)] = true
				}
			})
		}
	})
	return out
}

func deepCopyJSON(v any) any {
	b, _ := json.Marshal(v)
	var out any
	json.Unmarshal(b, &out)
	return out
}

// C19 also sends the value through request validation with a reason-only message function
var withRequests bool

// requestMessages: the schema as the JSON body schema of an operation (and, for string values, as
// the schema of a query and a header parameter); the messages of the schema errors that request
// validation returns when the customiser keeps the reason only, in both error modes
func requestMessages(s *openapi3.Schema, val any) (out []string) {
	doc := &openapi3.T{OpenAPI: "3.0.0", Info: &openapi3.Info{Title: "t", Version: "1"}, Paths: openapi3.NewPaths()}
	body, _ := json.Marshal(val)
	build := func(where string) (*routers.Route, *http.Request) {
		op := openapi3.NewOperation()
		op.Responses = openapi3.NewResponses()
		req := httptest.NewRequest("POST", "/r", nil)
		str, _ := val.(string)
		switch where {
		case "body":
			op.RequestBody = &openapi3.RequestBodyRef{Value: openapi3.NewRequestBody().WithContent(openapi3.Content{"application/json": openapi3.NewMediaType().WithSchema(s)})}
			req = httptest.NewRequest("POST", "/r", strings.NewReader(string(body)))
			req.Header.Set("Content-Type", "application/json")
		case "query":
			op.Parameters = openapi3.Parameters{{Value: &openapi3.Parameter{Name: "q", In: "query", Schema: s.NewRef()}}}
			q := req.URL.Query()
			q.Set("q", str)
			req.URL.RawQuery = q.Encode()
		case "header":
			op.Parameters = openapi3.Parameters{{Value: &openapi3.Parameter{Name: "X-P", In: "header", Schema: s.NewRef()}}}
			req.Header.Set("X-P", str)
		}
		item := &openapi3.PathItem{Post: op}
		return &routers.Route{Spec: doc, Path: "/r", PathItem: item, Method: "POST", Operation: op}, req
	}
	wheres := []string{"body"}
	if str, ok := val.(string); ok && str != "" && s.Type != nil && s.Type.Is("string") {
		wheres = append(wheres, "query", "header")
	}
	for _, where := range wheres {
		for _, multi := range []bool{false, true} {
			route, req := build(where)
			opts := &openapi3filter.Options{MultiError: multi, SkipSettingDefaults: true}
			opts.WithCustomSchemaErrorFunc(func(e *openapi3.SchemaError) string { return e.Reason })
			var err error
			if p := catchPanic(func() {
				err = openapi3filter.ValidateRequest(context.Background(), &openapi3filter.RequestValidationInput{Request: req, Route: route, Options: opts})
			}); p != nil || err == nil {
				continue
			}
			var errs []error
			if me, ok := err.(openapi3.MultiError); ok {
				errs = me
			} else {
				errs = []error{err}
			}
			for _, e := range errs {
				var re *openapi3filter.RequestError
				if !errors.As(e, &re) {
					continue
				}
				// only schema errors are in the property's scope (a decoding error quotes what it could not decode)
				var se *openapi3.SchemaError
				var me openapi3.MultiError
				if errors.As(re.Err, &se) || errors.As(re.Err, &me) {
					catchPanic(func() { out = append(out, where+": "+re.Error()) })
				}
			}
		}
	}
	return out
}

func runSchemaCase(c *SCase) SObs {
	var o SObs
	opts := c.modeOpts()
	s := c.Schema.ToOpenAPI()
	val := normJSON(c.Value)
	visit := func(extra ...openapi3.SchemaValidationOption) (err error, p any) {
		p = catchPanic(func() {
			err = s.VisitJSON(deepCopyJSON(val), append(append([]openapi3.SchemaValidationOption{}, opts...), extra...)...)
		})
		if p != nil {
			o.Panics = append(o.Panics, fmt.Sprint(p))
		}
		return
	}
	dErr, dp := visit()
	o.Default = classOf(dErr, dp)
	fErr, fpn := visit(openapi3.FailFast())
	o.Failfast = classOf(fErr, fpn)
	mErr, mp := visit(openapi3.MultiErrors())
	o.Multi = classOf(mErr, mp)
	if xErr, xp := visit(openapi3.FailFast(), openapi3.MultiErrors()); classOf(xErr, xp) != o.Failfast {
		o.ModeMix = fmt.Sprintf("fail-fast verdict %d, fail-fast with multi-error verdict %d", o.Failfast, classOf(xErr, xp))
	}
	if len(opts) == 0 {
		var m bool
		p := catchPanic(func() { m = s.IsMatching(deepCopyJSON(val)) })
		o.IsMatching = 1
		if p != nil {
			o.IsMatching = 2
		} else if m {
			o.IsMatching = 0
		}
		if p == nil {
			// the typed entry points promise the verdict of IsMatching for a value of their type
			var tm bool
			typed := true
			tp := catchPanic(func() {
				switch x := deepCopyJSON(val).(type) {
				case bool:
					tm = s.IsMatchingJSONBoolean(x)
				case float64:
					tm = s.IsMatchingJSONNumber(x)
				case string:
					tm = s.IsMatchingJSONString(x)
				case []any:
					tm = s.IsMatchingJSONArray(x)
				case map[string]any:
					tm = s.IsMatchingJSONObject(x)
				default:
					typed = false
				}
			})
			if tp != nil {
				o.Typed = fmt.Sprintf("typed entry point panics: %v", tp)
			} else if typed && tm != m {
				o.Typed = fmt.Sprintf("IsMatching %v, IsMatchingJSON<type of the value> %v", m, tm)
			}
		}
	} else {
		o.IsMatching = o.Failfast
	}
	if len(opts) == 0 {
		// a schema is usually read from a document: the schema read back from its own JSON gives the same verdict
		if b, err := s.MarshalJSON(); err == nil {
			var s2 openapi3.Schema
			if err := s2.UnmarshalJSON(b); err == nil {
				var rerr error
				rp := catchPanic(func() { rerr = s2.VisitJSON(deepCopyJSON(val)) })
				if c2 := classOf(rerr, rp); c2 != o.Default {
					o.Read = fmt.Sprintf("built in memory: verdict %d; read from its JSON %s: verdict %d", o.Default, string(b), c2)
				}
			}
		}
	}
	for _, e := range topErrors(dErr) {
		o.DefErr = append(o.DefErr, toSErr(e))
	}
	for _, e := range topErrors(mErr) {
		o.MultiErrs = append(o.MultiErrs, toSErr(e))
	}
	// direct oracles
	for mode, err := range map[string]error{"default": dErr, "failfast": fErr, "multi": mErr} {
		for _, e := range topErrors(err) {
			if se, ok := e.(*openapi3.SchemaError); ok && !pointerOK(val, se) {
				if se.Value == nil && strings.HasPrefix(se.Reason, "cannot compile pattern") {
					// recorded finding: this error quotes no value - but its pointer still has to designate
					// the string the pattern was applied to
					if at, ok := jsonLookup(val, se.JSONPointer()); ok {
						if _, isStr := at.(string); isStr {
							o.PtrBad = append(o.PtrBad, "uncompilable-pattern")
							continue
						}
					}
				}
				o.PtrBad = append(o.PtrBad, fmt.Sprintf("%s: field=%s pointer=/%s", mode, se.SchemaField, strings.Join(se.JSONPointer(), "/")))
			}
		}
		allReasons(err, &o.Reasons, 0)
	}
	sort.Strings(o.PtrBad)
	o.PtrBad = dedup(o.PtrBad)
	// messages assembled from reasons alone: schema error details disabled
	// (the flag must be set before validating: wrapped causes are formatted eagerly)
	openapi3.SchemaErrorDetailsDisabled = true
	for _, extra := range [][]openapi3.SchemaValidationOption{nil, {openapi3.MultiErrors()}} {
		var err error
		if p := catchPanic(func() {
			err = s.VisitJSON(deepCopyJSON(val), append(append([]openapi3.SchemaValidationOption{}, opts...), extra...)...)
		}); p == nil && err != nil {
			catchPanic(func() { o.Reasons = append(o.Reasons, err.Error()) })
		}
	}
	openapi3.SchemaErrorDetailsDisabled = false
	if withRequests {
		o.Reasons = append(o.Reasons, requestMessages(s, deepCopyJSON(val))...)
	}
	inSchema := schemaStrings(c.Schema)
	var allSchema strings.Builder
	for k := range inSchema {
		allSchema.WriteString(k)
		allSchema.WriteString("\x00")
	}
	// the library words some reasons with the JSON text of schema members (the list of an enum): a leaf that
	// occurs in that text - an enum member "a" next to the value "\"a\"" - is the schema's, not the value's
	if sj, err := json.Marshal(c.Schema); err == nil {
		allSchema.Write(sj)
	}
	leaks := map[string]bool{}
	walkJSON(val, func(x any) {
		str, ok := x.(string)
		// a leaf that already occurs in the schema (also as part of a schema string), or that is a
		// fragment of the library's own fixed wording ("a b" in "must be a boolean"), is not a disclosure
		if !ok || len(str) < 3 || strings.Contains(allSchema.String(), str) || strings.Contains(reasonWording, str) {
			return
		}
		for _, rs := range o.Reasons {
			if strings.Contains(rs, str) {
				leaks[str] = true
			}
		}
	})
	for l := range leaks {
		o.Leaks = append(o.Leaks, l)
	}
	sort.Strings(o.Leaks)
	return o
}

// oracle fragments: regexp and format validators evaluated outside visitJSON
func schemaOracles(c *SCase) (compiles, matches, formats []string) {
	var strs []string
	var nums []float64
	val := normJSON(c.Value)
	walkJSON(val, func(x any) {
		switch y := x.(type) {
		case string:
			strs = append(strs, y)
		case float64:
			nums = append(nums, y)
		}
	})
	seenP := map[string]bool{}
	seenF := map[string]bool{}
	c.Schema.walk(func(s *GSchema) {
		if s.Pattern != "" && !seenP[s.Pattern] {
			seenP[s.Pattern] = true
			re, err := regexp.Compile(ecmaToGo(s.Pattern))
			compiles = append(compiles, fmt.Sprintf("(%s, %s)", coqStr(s.Pattern), coqBool(err == nil)))
			if err == nil {
				done := map[string]bool{}
				for _, str := range strs {
					if !done[str] {
						done[str] = true
						matches = append(matches, fmt.Sprintf("(%s, %s, %s)", coqStr(s.Pattern), coqStr(str), coqBool(re.MatchString(str))))
					}
				}
			}
		}
		if s.Format != "" && !seenF[s.Format] {
			seenF[s.Format] = true
			if f, ok := openapi3.SchemaStringFormats[s.Format]; ok {
				done := map[string]bool{}
				for _, str := range strs {
					if !done[str] {
						done[str] = true
						formats = append(formats, fmt.Sprintf("(\"string\", %s, %s, %s)", coqStr(s.Format), coqJSON(str), coqBool(f.Validate(str) == nil)))
					}
				}
			}
			if f, ok := openapi3.SchemaIntegerFormats[s.Format]; ok {
				for _, x := range nums {
					formats = append(formats, fmt.Sprintf("(\"integer\", %s, %s, %s)", coqStr(s.Format), coqJSON(x), coqBool(f.Validate(int64(x)) == nil)))
				}
			}
			if f, ok := openapi3.SchemaNumberFormats[s.Format]; ok {
				for _, x := range nums {
					formats = append(formats, fmt.Sprintf("(\"number\", %s, %s, %s)", coqStr(s.Format), coqJSON(x), coqBool(f.Validate(x) == nil)))
				}
			}
		}
	})
	return
}

// the documented reading of a pattern: ECMA 262 \uXXXX (four upper-case hex digits) names the code
// point, everything else is RE2 syntax (written independently of openapi3.intoGoRegexp)
func ecmaToGo(p string) string {
	var b strings.Builder
	isHex := func(c byte) bool { return (c >= '0' && c <= '9') || (c >= 'A' && c <= 'F') || (c >= 'a' && c <= 'f') }
	for i := 0; i < len(p); {
		if p[i] == '\\' && i+6 <= len(p) && p[i+1] == 'u' && isHex(p[i+2]) && isHex(p[i+3]) && isHex(p[i+4]) && isHex(p[i+5]) {
			b.WriteString(`\x{` + p[i+2:i+6] + `}`)
			i += 6
			continue
		}
		if p[i] == '\\' && i+1 < len(p) {
			// any other escape, an escaped backslash included, is taken as a whole
			b.WriteByte(p[i])
			b.WriteByte(p[i+1])
			i += 2
			continue
		}
		b.WriteByte(p[i])
		i++
	}
	return b.String()
}

func sErrsCoq(l []SErr) string {
	out := make([]string, len(l))
	for i, e := range l {
		if e.Plain != "" || e.Field == "" && e.Reason == "" && e.Value == nil && e.Pointer == nil {
			out[i] = `("", [], JNull)`
			continue
		}
		out[i] = fmt.Sprintf("(%s, %s, %s)", coqStr(e.Field), coqStrList(e.Pointer), coqJSON(normJSON(e.Value)))
	}
	return coqList(out)
}

func sCaseCoq(c *SCase, o *SObs, mode string) string {
	comp, mat, fmts := schemaOracles(c)
	return fmt.Sprintf("mkSCase %s %s %s %s %s %d%%N %s%s %s%s %s%s %s %s %s",
		c.Schema.Coq(), coqJSON(normJSON(c.Value)), coqList(comp), coqList(mat), coqList(fmts), c.Mode,
		strconv.Itoa(o.Default), "%N", strconv.Itoa(o.Failfast), "%N", strconv.Itoa(o.Multi), "%N",
		sErrsCoq(o.DefErr), sErrsCoq(o.MultiErrs), coqBool(len(o.PtrBad) == 0 || (len(o.PtrBad) == 1 && o.PtrBad[0] == "uncompilable-pattern")))
}

// ---- directed cases: every keyword at its boundaries ----
func sDirected() []SCase {
	T := func(t ...string) *GSchema { return &GSchema{HasTypes: true, Types: t} }
	var out []SCase
	add := func(g *GSchema, vals ...any) {
		for _, v := range vals {
			out = append(out, SCase{Schema: g, Value: v})
		}
	}
	vals := []any{nil, true, 0.0, 1.0, 1.5, -1.0, 2.0, 3.0, "", "a", "abc", "abcd", []any{}, []any{1.0}, []any{1.0, 1.0}, []any{1.0, "a", nil},
		map[string]any{}, map[string]any{"a": 1.0}, map[string]any{"a": nil}, map[string]any{"a": "x", "b": 2.0}, map[string]any{"zz": true}}
	for _, t := range typeNames {
		add(T(t), vals...)
	}
	add(&GSchema{}, vals...)
	add(T("string", "null"), nil, "a", 1.0)
	add(T("integer", "number"), 1.5, 1.0, "a")
	add(&GSchema{Nullable: true, HasTypes: true, Types: []string{"string"}}, nil, "a", 1.0)
	n := T("number")
	n.Min, n.Max = fp(1), fp(3)
	add(n, 0.0, 1.0, 2.0, 3.0, 3.5, 0.999)
	n2 := T("number")
	n2.Min, n2.Max, n2.ExMin, n2.ExMax = fp(1), fp(3), true, true
	add(n2, 1.0, 1.0000000000000002, 2.0, 3.0, 2.9999999999999996)
	n5 := T("number")
	n5.Max, n5.ExMax = fp(3), true
	add(n5, 3.0, 2.0, 4.0)
	n6 := T("number")
	n6.Min, n6.ExMin, n6.Max = fp(1), true, fp(3)
	add(n6, 3.0, 1.0, 2.0)
	n7 := T("number")
	n7.Min, n7.Max, n7.ExMax = fp(1), fp(3), true
	add(n7, 3.0, 1.0)
	pc := T("object")
	pc.MinProps = 1
	add(pc, map[string]any{"a": nil}, map[string]any{})
	pc2 := T("object")
	pc2.MaxProps = up(1)
	add(pc2, map[string]any{"a": 1.0, "b": nil}, map[string]any{"a": nil})
	add(&GSchema{OneOf: []*GSchema{T("integer"), {HasTypes: true, Types: []string{"number"}, Min: fp(0)}}}, 5.0, -3.0, 0.5)
	n3 := T("integer")
	n3.Mult = fp(3)
	add(n3, 0.0, 3.0, 4.0, -6.0, 4.5, 1e300)
	n4 := T("number")
	n4.Mult = fp(0.1)
	add(n4, 0.3, 0.2, 0.5, 1.0)
	s := T("string")
	s.MinLen, s.MaxLen = 2, up(3)
	add(s, "", "a", "ab", "abc", "abcd", "héé", "日本語", "𝄞𝄞", "𝄞𝄞𝄞𝄞")
	s2 := T("string")
	s2.Pattern = "^[a-z]+$"
	add(s2, "abc", "ABC", "", "a1")
	// ECMA 262 code point escapes: upper- and lower-case hex digits, adjacent escapes, and a "u" after
	// an escaped backslash, which is not an escape
	for _, pv := range []struct {
		pat  string
		vals []any
	}{
		{"^h\\u00e9llo$", []any{"héllo", "hello", "h\\u00e9llo"}},
		{"^h\\u00E9llo$", []any{"héllo", "hello"}},
		{"^[\\u00e0-\\u00ff]$", []any{"é", "e", "ÿ"}},
		{"^\\u0061\\u0062$", []any{"ab", "a"}},
		{"^\\\\u0041$", []any{"\\u0041", "A", "\\x{0041}", "\\A"}},
		{"^a\\\\\\u0041$", []any{"a\\A", "a\\u0041"}},
	} {
		sp := T("string")
		sp.Pattern = pv.pat
		add(sp, pv.vals...)
	}
	a := T("array")
	a.MinItems, a.MaxItems, a.Unique = 1, up(2), true
	a.Items = T("integer")
	add(a, []any{}, []any{1.0}, []any{1.0, 2.0}, []any{1.0, 1.0}, []any{1.0, 2.0, 3.0}, []any{1.5}, []any{"a"}, []any{0.0, negZero()},
		[]any{map[string]any{"a": 1.0, "b": 2.0}, map[string]any{"b": 2.0, "a": 1.0}})
	au := T("array")
	au.Unique = true
	add(au, []any{0.0, negZero()}, []any{[]any{1.0}, []any{1.0}}, []any{map[string]any{"a": 1.0}, map[string]any{"a": 1.0}}, []any{"a", "a"}, []any{nil, nil}, []any{1.0, "1"},
		[]any{"[1]", []any{1.0}}, []any{map[string]any{"a": 1.0}, `{"a":1}`}, []any{"null", nil}, []any{true, "true"}, []any{`"a"`, "a"}, []any{"1", 1.0, "1.0"},
		[]any{[]any{"1"}, []any{1.0}}, []any{map[string]any{"a": "1"}, map[string]any{"a": 1.0}})
	ob := T("object")
	ob.Props = map[string]*GSchema{"a": T("string"), "b": T("integer")}
	ob.Required = []string{"a"}
	ob.MinProps, ob.MaxProps = 1, up(2)
	add(ob, map[string]any{}, map[string]any{"a": "x"}, map[string]any{"a": 1.0}, map[string]any{"b": 1.0}, map[string]any{"a": "x", "b": 1.0, "c": 1.0},
		map[string]any{"a": nil}, map[string]any{"a": "x", "b": "y"})
	ob2 := T("object")
	ob2.Props = map[string]*GSchema{"a": T("string")}
	ob2.ApHas = bp(false)
	add(ob2, map[string]any{"a": "x"}, map[string]any{"a": "x", "b": 1.0}, map[string]any{"b": 1.0})
	ob3 := T("object")
	ob3.Ap = T("integer")
	add(ob3, map[string]any{"a": 1.0}, map[string]any{"a": "x"}, map[string]any{})
	// null against compositions: after a composition that accepts null the schema's own keywords (type, enum, ...) are skipped for null, "not" is not
	nstr := T("string")
	nstr.Nullable = true
	nn := &GSchema{Nullable: true}
	add(&GSchema{AllOf: []*GSchema{nstr}, Not: nn}, nil, "a", 1.0)
	add(&GSchema{AnyOf: []*GSchema{nstr}, Not: nn}, nil, "a")
	add(&GSchema{OneOf: []*GSchema{nstr}, Not: nn}, nil, "a")
	add(&GSchema{AllOf: []*GSchema{nstr}, Not: T("string")}, nil, "a")
	add(&GSchema{AllOf: []*GSchema{nstr}, HasTypes: true, Types: []string{"string"}, Enum: []any{"a"}}, nil, "a", "b")
	add(&GSchema{HasTypes: true, Types: []string{"string"}, Nullable: true, Not: nn}, nil, "a")
	add(&GSchema{HasTypes: true, Types: []string{"object"}, Props: map[string]*GSchema{"p": {AllOf: []*GSchema{nstr}, Not: nn}}}, map[string]any{"p": nil}, map[string]any{"p": "a"})
	// compositions
	add(&GSchema{OneOf: []*GSchema{T("string"), T("integer")}}, "a", 1.0, 1.5, nil, true)
	add(&GSchema{OneOf: []*GSchema{T("number"), T("integer")}}, 1.0, 1.5, "a")
	add(&GSchema{AnyOf: []*GSchema{T("string"), {Nullable: true, HasTypes: true, Types: []string{"integer"}}}}, "a", 1.0, nil, true)
	add(&GSchema{AllOf: []*GSchema{n, T("integer")}}, 2.0, 2.5, 0.0, nil)
	add(&GSchema{Not: T("string")}, "a", 1.0, nil)
	add(&GSchema{Not: &GSchema{}}, "a", 1.0, nil, map[string]any{})
	add(&GSchema{Enum: []any{"a", 1.0, nil, []any{1.0}, map[string]any{"k": "v"}}}, "a", "b", 1.0, 2.0, nil, []any{1.0}, []any{2.0}, map[string]any{"k": "v"}, map[string]any{"k": "w"})
	// IsEmpty shortcut family
	add(&GSchema{Props: map[string]*GSchema{"a": {}}}, map[string]any{"a": nil}, map[string]any{"a": 1.0})
	add(&GSchema{Items: &GSchema{}}, []any{nil}, []any{1.0})
	add(&GSchema{Ap: &GSchema{}}, map[string]any{"a": nil})
	add(&GSchema{OneOf: []*GSchema{{}, {}}}, 1.0, "a")
	add(&GSchema{AnyOf: []*GSchema{{}}}, nil, 1.0)
	add(&GSchema{AllOf: []*GSchema{{}}}, nil, 1.0)
	// legal-but-unusual
	add(&GSchema{ExMin: true}, 1.0, "a")
	add(&GSchema{ExMax: true}, 1.0)
	add(&GSchema{Mult: fp(0)}, 0.0, 1.0)
	bad := T("string")
	bad.Pattern = "["
	add(bad, "a")
	big := T("string")
	big.MinLen = 1 << 63
	add(big, "a")
	big2 := T("string")
	big2.MaxLen = up(1 << 63)
	add(big2, "a")
	// nesting
	deep := T("object")
	deep.Props = map[string]*GSchema{"l": {HasTypes: true, Types: []string{"array"}, Items: ob}}
	add(deep, map[string]any{"l": []any{map[string]any{"a": "x"}, map[string]any{"a": 1.0}}}, map[string]any{"l": []any{map[string]any{"b": 1.5}}})
	// the reading (request / response, with and without the read-only / write-only checks) reaches the
	// schemas below not / allOf / oneOf / anyOf like everything else
	{
		ro := &GSchema{HasTypes: true, Types: []string{"string"}, ReadOnly: true}
		wo := &GSchema{HasTypes: true, Types: []string{"string"}, WriteOnly: true}
		inner := &GSchema{HasTypes: true, Types: []string{"object"}, Props: map[string]*GSchema{"id": ro, "pw": wo, "n": T("integer")}}
		req := &GSchema{HasTypes: true, Types: []string{"object"}, Props: map[string]*GSchema{"id": ro, "pw": wo}, Required: []string{"id", "pw"}}
		for _, g := range []*GSchema{{Not: inner}, {AllOf: []*GSchema{inner}}, {OneOf: []*GSchema{inner, T("string")}}, {AnyOf: []*GSchema{T("string"), inner}},
			{Not: req}, {Not: &GSchema{Not: inner}}, {HasTypes: true, Types: []string{"array"}, Items: &GSchema{Not: inner}}} {
			for mode := 0; mode <= 4; mode++ {
				for _, v := range []any{map[string]any{"id": "x"}, map[string]any{"pw": "x"}, map[string]any{"n": 1.0}, map[string]any{}, map[string]any{"id": "x", "pw": "y"}, []any{map[string]any{"id": "x"}}, "s"} {
					out = append(out, SCase{Schema: g, Value: v, Mode: mode})
				}
			}
		}
	}

	return out
}

func negZero() float64 { z := 0.0; return -z }

func sRandomCase(r *Rng, o SchemaGenOpts) SCase {
	g := randSchema(r, 3, o)
	var v any
	switch r.Intn(10) {
	case 0, 1:
		v = randValue(r, 2)
	case 2, 3, 4:
		v = valueFor(r, g, 3)
	default:
		v = mutateValue(r, valueFor(r, g, 3))
	}
	return SCase{Schema: g, Value: v}
}

func nontrivialSchemaCase(c *SCase) bool {
	n := 0
	c.Schema.walk(func(s *GSchema) {
		if s.Min != nil || s.Max != nil || s.Mult != nil || s.MinLen > 0 || s.MaxLen != nil || s.Pattern != "" || s.MinItems > 0 || s.MaxItems != nil ||
			s.Unique || len(s.Required) > 0 || s.Props != nil || s.Ap != nil || s.ApHas != nil || len(s.Enum) > 0 || s.Not != nil || len(s.OneOf)+len(s.AnyOf)+len(s.AllOf) > 0 || s.Items != nil || s.Format != "" {
			n++
		}
	})
	return n > 0
}

// C12 with default-setting on (Go side): schemas with defaults inside properties, arrays and
// allOf / oneOf / anyOf branches (those of C13) read as a request or as a response, validated in default,
// fail-fast and multi-error mode with DefaultsSet: the three verdicts must agree
func modesWithDefaults(seed uint64, n int, meta *Meta) {
	type dcase struct {
		Schema *GSchema `json:"schema"`
		Body   string   `json:"value"`
		AsResp bool     `json:"as_response"`
	}
	var cases []dcase
	kind := func(v string) *GSchema { return &GSchema{HasTypes: true, Types: []string{"string"}, Enum: []any{v}} }
	open := &GSchema{HasTypes: true, Types: []string{"object"}, Required: []string{"kind"}, Props: map[string]*GSchema{"kind": kind("a"), "extra": {HasTypes: true, Types: []string{"integer"}, Default: 1.0}}}
	closed := &GSchema{HasTypes: true, Types: []string{"object"}, Required: []string{"kind"}, Props: map[string]*GSchema{"kind": kind("b")}, ApHas: bp(false)}
	open2 := &GSchema{HasTypes: true, Types: []string{"object"}, Required: []string{"kind"}, Props: map[string]*GSchema{"kind": kind("c"), "color": {HasTypes: true, Types: []string{"string"}, Default: "red"}}}
	for _, asResp := range []bool{false, true} {
		cases = append(cases, dcase{&GSchema{OneOf: []*GSchema{open, closed}}, `{"kind":"b"}`, asResp}, dcase{&GSchema{AnyOf: []*GSchema{open, closed}}, `{"kind":"b"}`, asResp},
			dcase{&GSchema{OneOf: []*GSchema{closed, open}}, `{"kind":"a"}`, asResp},
			dcase{&GSchema{HasTypes: true, Types: []string{"array"}, Items: &GSchema{OneOf: []*GSchema{open, closed}}}, `[{"kind":"b"},{"kind":"a"}]`, asResp},
			// no branch matches: the error quotes the value as it is, not a branch's working copy with that branch's defaults
			dcase{&GSchema{OneOf: []*GSchema{closed, open}}, `{"kind":"zzz"}`, asResp}, dcase{&GSchema{OneOf: []*GSchema{open, open2}}, `{"kind":"zzz"}`, asResp},
			dcase{&GSchema{HasTypes: true, Types: []string{"object"}, Props: map[string]*GSchema{"shapes": {HasTypes: true, Types: []string{"array"}, Items: &GSchema{OneOf: []*GSchema{open, open2}}}}},
				`{"shapes":[{"kind":"a"},{"kind":"triangle"}]}`, asResp},
			dcase{&GSchema{OneOf: []*GSchema{open, closed}}, `{"kind":"zzz"}`, asResp}, dcase{&GSchema{AnyOf: []*GSchema{open, closed}}, `{"kind":"zzz"}`, asResp},
			dcase{&GSchema{HasTypes: true, Types: []string{"object"}, Props: map[string]*GSchema{"shapes": {HasTypes: true, Types: []string{"array"}, Items: &GSchema{OneOf: []*GSchema{open, closed}}}}},
				`{"shapes":[{"kind":"a"},{"kind":"triangle"}]}`, asResp})
	}
	// a branch that requires a property which has a default: the default is filled in before the requirement is
	// checked, in every mode and under every composition keyword
	reqDef := &GSchema{HasTypes: true, Types: []string{"object"}, Required: []string{"kind", "extra"}, Props: map[string]*GSchema{"kind": kind("a"), "extra": {HasTypes: true, Types: []string{"integer"}, Default: 1.0}}}
	for _, asResp := range []bool{false, true} {
		for _, body := range []string{`{"kind":"a"}`, `{"kind":"a","extra":2}`, `{"kind":"b"}`, `{"kind":"zzz"}`} {
			cases = append(cases, dcase{&GSchema{AnyOf: []*GSchema{reqDef, closed}}, body, asResp}, dcase{&GSchema{AnyOf: []*GSchema{closed, reqDef}}, body, asResp},
				dcase{&GSchema{OneOf: []*GSchema{reqDef, closed}}, body, asResp}, dcase{&GSchema{AllOf: []*GSchema{reqDef}}, body, asResp}, dcase{&GSchema{Not: reqDef}, body, asResp},
				dcase{&GSchema{HasTypes: true, Types: []string{"array"}, Items: &GSchema{AnyOf: []*GSchema{reqDef, closed}}}, "[" + body + "]", asResp},
				dcase{&GSchema{HasTypes: true, Types: []string{"object"}, Props: map[string]*GSchema{"in": {AnyOf: []*GSchema{reqDef, closed}}, "out": {Not: reqDef}}}, `{"in":` + body + `}`, asResp})
		}
	}
	for _, d := range c13Directed() {
		if d.BodySchema != nil && d.Body != "" && !d.Skip {
			cases = append(cases, dcase{d.BodySchema, d.Body, false}, dcase{d.BodySchema, d.Body, true})
		}
	}
	r := NewRng(seed ^ 0xdefa017)
	for i := 0; i < n; i++ {
		c := c13Random(r)
		if c.BodySchema != nil && c.Body != "" {
			cases = append(cases, dcase{c.BodySchema, c.Body, r.Bool()})
		}
	}
	for _, c := range cases {
		var val any
		if json.Unmarshal([]byte(c.Body), &val) != nil {
			continue
		}
		s := c.Schema.ToOpenAPI()
		base := openapi3.VisitAsRequest()
		if c.AsResp {
			base = openapi3.VisitAsResponse()
		}
		var verdicts []string
		for _, extra := range [][]openapi3.SchemaValidationOption{nil, {openapi3.FailFast()}, {openapi3.MultiErrors()}} {
			opts := append([]openapi3.SchemaValidationOption{base, openapi3.DefaultsSet(func() {})}, extra...)
			var err error
			v := "accepted"
			v0 := deepCopyJSON(val)
			if p := catchPanic(func() { err = s.VisitJSON(v0, opts...) }); p != nil {
				v = "panic"
			} else if err != nil {
				v = "rejected"
				// every schema error points into the validated value (as it is after default-setting) and quotes what is there
				for _, e := range topErrors(err) {
					if se, ok := e.(*openapi3.SchemaError); ok && !pointerOK(v0, se) && !(se.Value == nil && strings.HasPrefix(se.Reason, "cannot compile pattern")) {
						meta.GoViolation = append(meta.GoViolation, map[string]any{"signature": "pointer:with-defaults", "cases": []any{c},
							"go_observation": fmt.Sprintf("field=%s pointer=/%s quoted=%v", se.SchemaField, strings.Join(se.JSONPointer(), "/"), se.Value),
							"judgement":      "with default-setting on, a schema error does not quote the value found at its pointer"})
					}
				}
			}
			verdicts = append(verdicts, v)
		}
		meta.Histogram["with defaults: "+verdicts[0]]++
		if verdicts[0] != verdicts[1] || verdicts[0] != verdicts[2] {
			meta.GoViolation = append(meta.GoViolation, map[string]any{"signature": "verdict-depends-on-mode:with-defaults", "cases": []any{c}, "go_observation": verdicts,
				"judgement": "default / fail-fast / multi-error verdicts with default-setting on: " + strings.Join(verdicts, " / ")})
		}
	}
	meta.Histogram["with defaults: cases"] = len(cases)
}

func schemaRunner(prop string, gopts SchemaGenOpts, rule string, post func(c *SCase, o *SObs, meta *Meta, idx int)) runner {
	return func(seed uint64, n int, outDir string, replay string) {
		var cases []SCase
		if replay != "" {
			cases = loadReplayCases[SCase](replay)
		} else {
			cases = append(loadCorpus[SCase](prop), sDirected()...)
			r := NewRng(seed)
			for i := 0; i < n; i++ {
				cases = append(cases, sRandomCase(r, gopts))
			}
			if prop == "C01" {
				// the rewriting of pattern escapes, against its own model
				for _, pc := range patDirected() {
					pc := pc
					cases = append(cases, SCase{Pat: &pc})
				}
				pr := NewRng(seed ^ 0x9a77e12)
				for i := 0; i < n/3; i++ {
					pc := patRandom(pr)
					cases = append(cases, SCase{Pat: &pc})
				}
			}
		}
		meta := &Meta{Property: prop, Seed: seed, Histogram: map[string]int{}, Rule: rule, Shard: 400}
		seen := map[string]bool{}
		var terms, pterms []string
		var sidx, pidx []int
		for i := range cases {
			c := &cases[i]
			if c.Pat != nil {
				out := runPat(c.Pat)
				pterms = append(pterms, patCoq(c.Pat, out))
				pidx = append(pidx, i)
				meta.Cases = append(meta.Cases, map[string]any{"input": c, "go": map[string]string{"pattern": c.Pat.text(), "rewritten": out}})
				meta.Histogram["pattern rewriting cases"]++
				continue
			}
			sidx = append(sidx, i)
			if prop == "C19" && i%4 != 3 { // every fourth case keeps its (format-shaped) leaves
				plantMarkers(c, i)
			}
			withRequests = prop == "C19"
			o := runSchemaCase(c)
			terms = append(terms, sCaseCoq(c, &o, prop))
			meta.Cases = append(meta.Cases, map[string]any{"input": c, "go": o})
			key, _ := json.Marshal(c)
			if nontrivialSchemaCase(c) && !seen[string(key)] {
				seen[string(key)] = true
				meta.Distinct++
			}
			meta.Histogram[fmt.Sprintf("verdict_default=%d", o.Default)]++
			c.Schema.walk(func(s *GSchema) {
				for name, on := range map[string]bool{"min": s.Min != nil, "max": s.Max != nil, "multipleOf": s.Mult != nil, "minLength": s.MinLen > 0, "maxLength": s.MaxLen != nil,
					"pattern": s.Pattern != "", "items": s.Items != nil, "unique": s.Unique, "required": len(s.Required) > 0, "properties": s.Props != nil,
					"addProps": s.Ap != nil || s.ApHas != nil, "enum": len(s.Enum) > 0, "not": s.Not != nil, "oneOf": len(s.OneOf) > 0, "anyOf": len(s.AnyOf) > 0,
					"allOf": len(s.AllOf) > 0, "format": s.Format != "", "nullable": s.Nullable} {
					if on {
						meta.Histogram["kw:"+name]++
					}
				}
			})
			for _, e := range o.DefErr {
				meta.Histogram["err:"+e.Field]++
			}
			if post != nil {
				post(c, &o, meta, i)
			}
		}
		if prop == "C19" && replay == "" {
			c19IPFormats(meta)
			c19Discriminator(meta)
			c19ReadWriteOnly(meta)
			c19Dates(meta)
			c19ResponseParts(meta)
		}
		if prop == "C12" && replay == "" {
			modesWithDefaults(seed, n/4, meta)
			convertedPointers(meta)
			c12Discriminator(meta)
		}
		meta.NCases = len(cases)
		var off1 []int
		meta.Files, off1 = writeCasesAt(outDir, "cases", "From KV Require Import Model.Base Model.Json Model.Schema Exec.SchemaExec.", "scase", "judge_"+prop, terms, meta.Shard, 0)
		meta.Offsets = off1
		meta.IndexMap = sidx
		if len(pterms) > 0 {
			f2, off2 := writeCasesAt(outDir, "pat", "From KV Require Import Model.Base Model.Pattern Proofs.PatternProofs Exec.C01PatExec.", "patcase", "judge_pat", pterms, meta.Shard, len(terms))
			meta.Files = append(meta.Files, f2...)
			meta.Offsets = append(meta.Offsets, off2...)
			meta.IndexMap = append(meta.IndexMap, pidx...)
		}
		writeMeta(outDir, meta)
		fmt.Fprintf(os.Stderr, "%s: %d cases\n", prop, len(cases))
	}
}

// C19: replace every string leaf of the value by a unique marker
func plantMarkers(c *SCase, idx int) {
	n := 0
	var rec func(v any) any
	rec = func(v any) any {
		switch x := v.(type) {
		case string:
			n++
			if idx%2 == 0 {
				// short marker replacing the leaf: lets minLength/enum/pattern checks fail on it
				const al = "0123456789ABCDEFGHIJKLMNOPQRSTUVWXYZ"
				return fmt.Sprintf("Z%c%c", al[(idx/2+n*7)%36], al[n%36])
			}
			return fmt.Sprintf("%sMK%dx%dKM", x, idx, n)
		case []any:
			out := make([]any, len(x))
			for i := range x {
				out[i] = rec(x[i])
			}
			return out
		case map[string]any:
			out := map[string]any{}
			for k, e := range x {
				out[k] = rec(e)
			}
			return out
		}
		return v
	}
	c.Value = rec(normJSON(c.Value))
}

func init() {
	// a format registered by the application whose validator wraps the library's own schema error
	openapi3.DefineStringFormatValidator("x-wrapped", openapi3.NewCallbackValidator(func(v string) error {
		if err := openapi3.NewIPValidator(true).Validate(v); err != nil {
			return fmt.Errorf("bad host: %w", err)
		}
		return nil
	}))
	// ... and one whose validator returns a schema error that quotes the value but carries no reason text
	openapi3.DefineStringFormatValidator("x-noreason", openapi3.NewCallbackValidator(func(v string) error {
		if len(v) > 0 && v[0] >= '0' && v[0] <= '9' {
			return nil
		}
		return &openapi3.SchemaError{Value: v, SchemaField: "format"}
	}))
	runners["C01"] = schemaRunner("C01", SchemaGenOpts{Hostile: true},
		"directed keyword/boundary table + seeded random schemas (depth<=3) with values generated towards the schema then mutated; non-trivial = schema has at least one keyword beyond type; distinct by JSON of (schema,value)", func(c *SCase, o *SObs, meta *Meta, idx int) {
			if o.Read != "" {
				meta.GoViolation = append(meta.GoViolation, map[string]any{"signature": "schema-read-from-json-differs", "cases": []any{c}, "go_observation": o,
					"judgement": "the schema read from its JSON text does not give the verdict of the schema built in memory: " + o.Read})
			}
			if o.Typed != "" {
				meta.GoViolation = append(meta.GoViolation, map[string]any{"signature": "typed-entry-point-differs", "cases": []any{c}, "go_observation": o,
					"judgement": "the typed entry point for the value's type does not give the verdict of IsMatching: " + o.Typed})
			}
		})
	runners["C12"] = schemaRunner("C12", SchemaGenOpts{Hostile: true, Formats: true},
		"as C01 plus formats and legal-but-unusual schemas; every returned schema error is checked against the value (pointer + quoted value) on the Go side and against the model's error list", func(c *SCase, o *SObs, meta *Meta, idx int) {
			if o.ModeMix != "" {
				meta.GoViolation = append(meta.GoViolation, map[string]any{"signature": "verdict-depends-on-mode:failfast+multierrors", "cases": []any{c}, "go_observation": o,
					"judgement": "FailFast() and MultiErrors() together: " + o.ModeMix})
			}
			if len(o.PtrBad) > 0 {
				sig := "pointer:" + strings.Join(o.PtrBad, ";")
				meta.GoViolation = append(meta.GoViolation, map[string]any{"signature": sig, "cases": []any{c}, "go_observation": o,
					"judgement": "a returned schema error's JSON pointer / quoted value does not match the validated value"})
			}
		})
	runners["C19"] = schemaRunner("C19", SchemaGenOpts{Hostile: false, Formats: true},
		"as C12 with a unique marker appended to every string leaf of the value; every Reason at every nesting level (members, origins) is searched for markers", func(c *SCase, o *SObs, meta *Meta, idx int) {
			if len(o.Leaks) > 0 {
				meta.GoViolation = append(meta.GoViolation, map[string]any{"signature": "leak", "cases": []any{c}, "go_observation": o,
					"judgement": "a schema error reason contains a string leaf of the rejected value: " + strings.Join(o.Leaks, ",")})
			}
		})
}

func dedup(xs []string) []string {
	var out []string
	for i, x := range xs {
		if i == 0 || x != xs[i-1] {
			out = append(out, x)
		}
	}
	return out
}

// the fixed wording of schema-error reasons and of the details-disabled message frame
const reasonWording = `value must be an integer a number a boolean a string an array an object one of , ` +
	`value is not one of the allowed values value matches more than one schema from "oneOf" (matches schemas at indices ) ` +
	`value doesn't match any schema from "oneOf" doesn't match any schema from "anyOf" doesn't match all schemas from "allOf" ` +
	`Value is not nullable number must be more than less than at least at most a multiple of ` +
	`minimum string length is maximum string length is string doesn't match the regular expression the format ` +
	`minimum number of items is maximum number of items is duplicate items found there must be at least at most properties ` +
	`property is unsupported is missing input does not contain the discriminator property value of discriminator property is not a string has invalid value ` +
	`cannot compile pattern Not an IP address IPv4 IPv6 (it's ) string doesn't match pattern value should be between and ` +
	`Error at Doesn't match schema doesn't match schema due to: input does not match the schema floating point NaN Inf is not allowed | Or `

// C12, through the request validator's error converter (Go side): the JSON pointer ConvertErrors
// reports for a body schema error resolves inside the body (to the enclosing object for a missing
// required property), wherever the failing member sits relative to allOf / anyOf / oneOf wrappers.
func convertedPointers(meta *Meta) {
	str := &GSchema{HasTypes: true, Types: []string{"string"}}
	named := &GSchema{HasTypes: true, Types: []string{"object"}, Required: []string{"name"}, Props: map[string]*GSchema{"name": str, "age": {HasTypes: true, Types: []string{"integer"}, Max: fp(9)}}}
	wrap := func(kind string, s *GSchema) *GSchema {
		switch kind {
		case "allOf":
			return &GSchema{AllOf: []*GSchema{s}}
		case "anyOf":
			return &GSchema{AnyOf: []*GSchema{s}}
		case "oneOf":
			return &GSchema{OneOf: []*GSchema{s}}
		}
		return s
	}
	type pc struct {
		Schema *GSchema `json:"schema"`
		Body   string   `json:"body"`
	}
	var cases []pc
	for _, kind := range []string{"", "allOf", "anyOf", "oneOf"} {
		inner := wrap(kind, named)
		for _, bad := range []string{`{"name":5}`, `{"age":3}`, `{"name":"n","age":12}`} {
			cases = append(cases,
				pc{inner, bad},
				pc{&GSchema{HasTypes: true, Types: []string{"object"}, Props: map[string]*GSchema{"pet": inner}}, `{"pet":` + bad + `}`},
				pc{&GSchema{HasTypes: true, Types: []string{"object"}, Props: map[string]*GSchema{"pets": {HasTypes: true, Types: []string{"array"}, Items: inner}}}, `{"pets":[{"name":"ok"},` + bad + `]}`},
				pc{&GSchema{HasTypes: true, Types: []string{"object"}, Props: map[string]*GSchema{"a": {HasTypes: true, Types: []string{"object"}, Props: map[string]*GSchema{"b": {HasTypes: true, Types: []string{"array"}, Items: inner}}}}}, `{"a":{"b":[` + bad + `]}}`})
		}
	}
	for _, c := range cases {
		for _, multi := range []bool{false, true} {
			op := openapi3.NewOperation()
			op.RequestBody = &openapi3.RequestBodyRef{Value: openapi3.NewRequestBody().WithJSONSchema(c.Schema.ToOpenAPI())}
			op.Responses = openapi3.NewResponses()
			item := &openapi3.PathItem{Post: op}
			doc := &openapi3.T{OpenAPI: "3.0.0", Info: &openapi3.Info{Title: "t", Version: "1"}, Paths: openapi3.NewPaths()}
			route := &routers.Route{Spec: doc, Path: "/b", PathItem: item, Method: "POST", Operation: op}
			req := httptest.NewRequest("POST", "/b", strings.NewReader(c.Body))
			req.Header.Set("Content-Type", "application/json")
			var err error
			if p := catchPanic(func() {
				err = openapi3filter.ValidateRequest(context.Background(), &openapi3filter.RequestValidationInput{Request: req, Route: route, Options: &openapi3filter.Options{MultiError: multi, SkipSettingDefaults: true}})
			}); p != nil || err == nil {
				continue
			}
			var body any
			_ = json.Unmarshal([]byte(c.Body), &body)
			var errs []error
			if me, ok := err.(openapi3.MultiError); ok {
				errs = me
			} else {
				errs = []error{err}
			}
			for _, e := range errs {
				var conv error
				if p := catchPanic(func() { conv = openapi3filter.ConvertErrors(e) }); p != nil {
					continue
				}
				var ve *openapi3filter.ValidationError
				if !errors.As(conv, &ve) || ve.Source == nil || ve.Source.Pointer == "" {
					continue
				}
				meta.Histogram["converted pointers"]++
				toks := strings.Split(strings.TrimPrefix(ve.Source.Pointer, "/"), "/")
				if _, ok := jsonLookup(body, toks); !ok {
					// the pointer of a missing required property names the property: its parent must exist
					if _, ok2 := jsonLookup(body, toks[:len(toks)-1]); ok2 && strings.Contains(ve.Title, "missing") {
						continue
					}
					meta.GoViolation = append(meta.GoViolation, map[string]any{"signature": "pointer:converted-error-does-not-resolve", "cases": []any{map[string]any{"schema": c.Schema, "body": c.Body, "multi_error": multi}},
						"go_observation": fmt.Sprintf("pointer %s, title %q", ve.Source.Pointer, ve.Title), "judgement": "the pointer ConvertErrors reports does not resolve inside the request body"})
				}
			}
		}
	}
}

// C19, the opt-in IP formats (Go side): a rejected string that is a well-formed address of the other
// family is still a value of the request - no reason, at any level, and no message assembled from
// reasons may repeat it
func c19IPFormats(meta *Meta) {
	openapi3.DefineIPv4Format()
	openapi3.DefineIPv6Format()
	defer func() {
		delete(openapi3.SchemaStringFormats, "ipv4")
		delete(openapi3.SchemaStringFormats, "ipv6")
	}()
	for _, format := range []string{"ipv4", "ipv6"} {
		for _, v := range []string{"2001:db8::c19:9", "198.51.100.199", "::ffff:198.51.100.7", "2001:0db8:0000:0000:0000:0000:0c19:0009", "fe80::c19%eth0", "198.51.100.256", "1.2.3"} {
			for _, nest := range []string{"", "property", "item"} {
				s := openapi3.NewStringSchema().WithFormat(format)
				var val any = v
				switch nest {
				case "property":
					s = openapi3.NewObjectSchema().WithProperty("addr", s)
					val = map[string]any{"addr": v}
				case "item":
					s = openapi3.NewArraySchema().WithItems(s)
					val = []any{v}
				}
				for _, multi := range []bool{false, true} {
					opts := []openapi3.SchemaValidationOption{openapi3.EnableFormatValidation()}
					if multi {
						opts = append(opts, openapi3.MultiErrors())
					}
					var err error
					if p := catchPanic(func() { err = s.VisitJSON(val, opts...) }); p != nil || err == nil {
						continue
					}
					meta.Histogram["ip format rejections"]++
					var reasons []string
					allReasons(err, &reasons, 0)
					// the message with details disabled (the flag must be set before validating: wrapped causes are formatted eagerly)
					openapi3.SchemaErrorDetailsDisabled = true
					var text string
					var err2 error
					if p := catchPanic(func() { err2 = s.VisitJSON(val, opts...) }); p == nil && err2 != nil {
						catchPanic(func() { text = err2.Error() })
					}
					openapi3.SchemaErrorDetailsDisabled = false
					for _, r := range append(reasons, text) {
						if strings.Contains(r, v) {
							meta.GoViolation = append(meta.GoViolation, map[string]any{"signature": "leak", "cases": []any{map[string]any{"format": format, "value": val, "multi_error": multi}},
								"go_observation": r, "judgement": "a reason (or the message with details disabled) repeats the rejected address: " + r})
							break
						}
					}
				}
			}
		}
	}
}

// dates that the format's pattern lets through although the calendar does not have them: whatever a
// stricter validator says about them, it does not quote them
func c19Dates(meta *Meta) {
	for _, tc := range []struct{ format, v string }{{"date", "2023-02-30"}, {"date", "2023-04-31"}, {"date-time", "2023-02-30T10:00:00Z"}, {"date-time", "2023-06-31T25:61:00Z"}, {"date", "2023-02-3x"}} {
		for _, multi := range []bool{false, true} {
			s := openapi3.NewObjectSchema().WithProperty("d", openapi3.NewStringSchema().WithFormat(tc.format)).WithProperty("n", openapi3.NewIntegerSchema())
			val := map[string]any{"d": tc.v, "n": "no"}
			opts := []openapi3.SchemaValidationOption{openapi3.EnableFormatValidation(), openapi3.SetSchemaErrorMessageCustomizer(func(e *openapi3.SchemaError) string { return e.Reason })}
			if multi {
				opts = append(opts, openapi3.MultiErrors())
			}
			meta.Histogram["date format cases"]++
			var texts []string
			for _, disabled := range []bool{false, true} {
				openapi3.SchemaErrorDetailsDisabled = disabled
				var err error
				if p := catchPanic(func() { err = s.VisitJSON(deepCopyJSON(val), opts...) }); p == nil && err != nil {
					allReasons(err, &texts, 0)
					catchPanic(func() { texts = append(texts, err.Error()) })
				}
				openapi3.SchemaErrorDetailsDisabled = false
			}
			for _, r := range texts {
				if strings.Contains(r, tc.v) {
					meta.GoViolation = append(meta.GoViolation, map[string]any{"signature": "leak", "cases": []any{map[string]any{"format": tc.format, "value": val, "multi_error": multi}},
						"go_observation": r, "judgement": "a reason (or a message made from reasons) repeats the rejected date: " + r})
					break
				}
			}
		}
	}
}

// C19, discriminators (Go side; the model has no discriminator): the three discriminator errors of a
// oneOf, seen through the request validator with a reason-only message function, at the top of the
// body and below a property - no message may repeat a string of the rejected body
// read-only properties sent in a request, write-only ones sent in a response: whatever kind of error
// reports them, a message made from reasons alone does not repeat the value
func c19ReadWriteOnly(meta *Meta) {
	const marker = "MARKERrw5Kp"
	ro := openapi3.NewStringSchema()
	ro.ReadOnly = true
	wo := openapi3.NewStringSchema()
	wo.WriteOnly = true
	for _, nested := range []bool{false, true} {
		// request side, through ValidateRequest with a reason-only message function
		s := openapi3.NewObjectSchema().WithProperty("id", ro).WithProperty("name", openapi3.NewStringSchema())
		var val any = map[string]any{"id": marker, "name": "n"}
		if nested {
			s = openapi3.NewObjectSchema().WithProperty("item", s)
			val = map[string]any{"item": val}
		}
		meta.Histogram["read-only / write-only cases"]++
		doc := &openapi3.T{OpenAPI: "3.0.0", Info: &openapi3.Info{Title: "t", Version: "1"}, Paths: openapi3.NewPaths()}
		op := openapi3.NewOperation()
		op.Responses = openapi3.NewResponses()
		op.RequestBody = &openapi3.RequestBodyRef{Value: openapi3.NewRequestBody().WithContent(openapi3.Content{"application/json": openapi3.NewMediaType().WithSchema(s)})}
		route := &routers.Route{Spec: doc, Path: "/r", PathItem: &openapi3.PathItem{Post: op}, Method: "POST", Operation: op}
		body, _ := json.Marshal(val)
		for _, multi := range []bool{false, true} {
			req := httptest.NewRequest("POST", "/r", strings.NewReader(string(body)))
			req.Header.Set("Content-Type", "application/json")
			opts := &openapi3filter.Options{MultiError: multi, SkipSettingDefaults: true}
			opts.WithCustomSchemaErrorFunc(func(e *openapi3.SchemaError) string { return e.Reason })
			var err error
			var msg string
			catchPanic(func() {
				err = openapi3filter.ValidateRequest(context.Background(), &openapi3filter.RequestValidationInput{Request: req, Route: route, Options: opts})
				if err != nil {
					msg = err.Error()
				}
			})
			if strings.Contains(msg, marker) {
				meta.GoViolation = append(meta.GoViolation, map[string]any{"signature": "leak", "cases": []any{map[string]any{"read_only_property_in_request": true, "below_a_property": nested, "multi_error": multi}},
					"go_observation": msg, "judgement": "a message assembled from reasons alone repeats the value of a read-only property sent in the request: " + msg})
			}
		}
		// response side, directly: VisitAsResponse with the message customizer
		sw := openapi3.NewObjectSchema().WithProperty("pw", wo)
		var rval any = map[string]any{"pw": marker}
		if nested {
			sw = openapi3.NewObjectSchema().WithProperty("item", sw)
			rval = map[string]any{"item": rval}
		}
		for _, extra := range [][]openapi3.SchemaValidationOption{nil, {openapi3.MultiErrors()}} {
			o := append([]openapi3.SchemaValidationOption{openapi3.VisitAsResponse(), openapi3.SetSchemaErrorMessageCustomizer(func(e *openapi3.SchemaError) string { return e.Reason })}, extra...)
			var msg string
			catchPanic(func() {
				if err := sw.VisitJSON(rval, o...); err != nil {
					msg = err.Error()
				}
			})
			if strings.Contains(msg, marker) {
				meta.GoViolation = append(meta.GoViolation, map[string]any{"signature": "leak", "cases": []any{map[string]any{"write_only_property_in_response": true, "below_a_property": nested}},
					"go_observation": msg, "judgement": "a message assembled from reasons alone repeats the value of a write-only property sent in the response: " + msg})
			}
		}
	}
}

// every part of a response that is judged by a schema is reported through the caller's message function:
// a refused header value, like a refused body value, does not appear in a message assembled from reasons alone
func c19ResponseParts(meta *Meta) {
	const marker = "MARKERhd7Qz"
	hdr := func(s *openapi3.Schema) *openapi3.HeaderRef {
		return &openapi3.HeaderRef{Value: &openapi3.Header{Parameter: openapi3.Parameter{Schema: s.NewRef(), Required: true}}}
	}
	for _, tc := range []struct {
		name   string
		schema *openapi3.Schema
		value  string
		body   string
	}{
		{"string-maxLength", openapi3.NewStringSchema().WithMaxLength(3), marker, `{"ok":true}`},
		{"string-enum", openapi3.NewStringSchema().WithEnum("a", "b"), marker, `{"ok":true}`},
		{"array-maxItems", openapi3.NewArraySchema().WithItems(openapi3.NewStringSchema()).WithMaxItems(1), marker + ",x", `{"ok":true}`},
		{"array-item-pattern", openapi3.NewArraySchema().WithItems(openapi3.NewStringSchema().WithPattern("^[a-z]$")), "a," + marker, `{"ok":true}`},
		{"body", openapi3.NewStringSchema(), "fine", `{"ok":"` + marker + `"}`},
	} {
		for _, multi := range []bool{false, true} {
			desc := "d"
			resp := &openapi3.Response{Description: &desc, Headers: openapi3.Headers{"X-Part": hdr(tc.schema)},
				Content: openapi3.Content{"application/json": openapi3.NewMediaType().WithSchema(openapi3.NewObjectSchema().WithProperty("ok", openapi3.NewBoolSchema()))}}
			op := openapi3.NewOperation()
			op.Responses = openapi3.NewResponses()
			op.Responses.Set("200", &openapi3.ResponseRef{Value: resp})
			doc := &openapi3.T{OpenAPI: "3.0.0", Info: &openapi3.Info{Title: "t", Version: "1"}, Paths: openapi3.NewPaths()}
			route := &routers.Route{Spec: doc, Path: "/r", PathItem: &openapi3.PathItem{Get: op}, Method: "GET", Operation: op}
			opts := &openapi3filter.Options{MultiError: multi}
			opts.WithCustomSchemaErrorFunc(func(e *openapi3.SchemaError) string { return e.Reason })
			in := &openapi3filter.ResponseValidationInput{
				RequestValidationInput: &openapi3filter.RequestValidationInput{Request: httptest.NewRequest("GET", "/r", nil), Route: route, Options: opts},
				Status:                 200, Header: http.Header{"Content-Type": []string{"application/json"}, "X-Part": []string{tc.value}}, Options: opts}
			in.SetBodyBytes([]byte(tc.body))
			var msg string
			var err error
			catchPanic(func() {
				err = openapi3filter.ValidateResponse(context.Background(), in)
				if err != nil {
					msg = err.Error()
				}
			})
			meta.Histogram["response part cases"]++
			if err == nil {
				meta.GoViolation = append(meta.GoViolation, map[string]any{"signature": "response-part-not-refused", "cases": []any{map[string]any{"part": tc.name, "multi_error": multi}},
					"go_observation": "accepted", "judgement": "a response part that violates its schema was accepted"})
			} else if strings.Contains(msg, marker) {
				meta.GoViolation = append(meta.GoViolation, map[string]any{"signature": "leak", "cases": []any{map[string]any{"response_part": tc.name, "multi_error": multi}},
					"go_observation": msg, "judgement": "a message assembled from reasons alone repeats the refused value of a response part: " + msg})
			}
		}
	}
}

func c19Discriminator(meta *Meta) {
	cat := openapi3.NewObjectSchema().WithProperty("kind", openapi3.NewStringSchema()).WithProperty("lives", openapi3.NewIntegerSchema())
	dog := openapi3.NewObjectSchema().WithProperty("kind", openapi3.NewStringSchema()).WithProperty("good", openapi3.NewBoolSchema())
	mk := func(mapping bool) *openapi3.Schema {
		s := &openapi3.Schema{OneOf: openapi3.SchemaRefs{{Ref: "#/components/schemas/Cat", Value: cat}, {Ref: "#/components/schemas/Dog", Value: dog}},
			Discriminator: &openapi3.Discriminator{PropertyName: "kind"}}
		if mapping {
			s.Discriminator.Mapping = map[string]string{"cat": "#/components/schemas/Cat", "dog": "#/components/schemas/Dog"}
		}
		return s
	}
	const marker = "MARKERq7Zx"
	values := []any{
		map[string]any{"kind": marker}, map[string]any{"kind": map[string]any{"x": marker}}, map[string]any{"kind": []any{marker}},
		map[string]any{"other": marker}, map[string]any{"kind": "cat", "lives": marker}, map[string]any{"kind": "dog", "good": marker},
	}
	for _, mapping := range []bool{true, false} {
		for _, nested := range []bool{false, true} {
			for _, v := range values {
				s, val := mk(mapping), v
				if nested {
					s = openapi3.NewObjectSchema().WithProperty("pet", s)
					val = map[string]any{"pet": v}
				}
				meta.Histogram["discriminator cases"]++
				for _, msg := range requestMessages(s, val) {
					if strings.Contains(msg, marker) {
						meta.GoViolation = append(meta.GoViolation, map[string]any{"signature": "leak", "cases": []any{map[string]any{"discriminator_mapping": mapping, "below_a_property": nested, "value": val}},
							"go_observation": msg, "judgement": "a message assembled from reasons alone (custom schema error function returning the reason) repeats a string of the rejected body: " + msg})
						break
					}
				}
			}
		}
	}
}

// C12, discriminators (Go side): the discriminator errors of a oneOf point into the validated value
// and quote what is found there, in every mode, at the top and below a property
func c12Discriminator(meta *Meta) {
	cat := openapi3.NewObjectSchema().WithProperty("kind", openapi3.NewStringSchema()).WithProperty("lives", openapi3.NewIntegerSchema())
	dog := openapi3.NewObjectSchema().WithProperty("kind", openapi3.NewStringSchema()).WithProperty("good", openapi3.NewBoolSchema())
	base := &openapi3.Schema{OneOf: openapi3.SchemaRefs{{Ref: "#/components/schemas/Cat", Value: cat}, {Ref: "#/components/schemas/Dog", Value: dog}},
		Discriminator: &openapi3.Discriminator{PropertyName: "kind", Mapping: map[string]string{"cat": "#/components/schemas/Cat", "dog": "#/components/schemas/Dog"}}}
	values := []any{map[string]any{"kind": "bird"}, map[string]any{"kind": 7.0}, map[string]any{"kind": map[string]any{"x": "y"}}, map[string]any{"other": 1.0}}
	for _, nested := range []string{"", "property", "item"} {
		for _, v := range values {
			s, val := base, v
			switch nested {
			case "property":
				s = openapi3.NewObjectSchema().WithProperty("pet", base)
				val = map[string]any{"pet": v}
			case "item":
				s = openapi3.NewArraySchema().WithItems(base)
				val = []any{map[string]any{"kind": "cat"}, v}
			}
			var verdicts []bool
			for _, extra := range [][]openapi3.SchemaValidationOption{nil, {openapi3.FailFast()}, {openapi3.MultiErrors()}} {
				v0 := deepCopyJSON(val)
				var err error
				if p := catchPanic(func() { err = s.VisitJSON(v0, extra...) }); p != nil {
					meta.GoViolation = append(meta.GoViolation, map[string]any{"signature": "panic", "cases": []any{map[string]any{"value": val}}, "go_observation": fmt.Sprint(p), "judgement": "VisitJSON panicked"})
					continue
				}
				verdicts = append(verdicts, err == nil)
				meta.Histogram["discriminator cases"]++
				for _, e := range topErrors(err) {
					if se, ok := e.(*openapi3.SchemaError); ok && se.SchemaField == "discriminator" && !pointerOK(v0, se) {
						meta.GoViolation = append(meta.GoViolation, map[string]any{"signature": "pointer:discriminator", "cases": []any{map[string]any{"value": val, "where": nested}},
							"go_observation": fmt.Sprintf("pointer=/%s quoted=%v reason=%s", strings.Join(se.JSONPointer(), "/"), se.Value, se.Reason),
							"judgement":      "a discriminator error does not quote the value found at its pointer"})
					}
				}
			}
			for _, ok := range verdicts {
				if ok != verdicts[0] {
					meta.GoViolation = append(meta.GoViolation, map[string]any{"signature": "verdict-depends-on-mode:discriminator", "cases": []any{map[string]any{"value": val}}, "go_observation": verdicts, "judgement": "modes disagree"})
					break
				}
			}
		}
	}
}
