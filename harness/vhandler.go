package main

// openapi3filter.ValidationHandler (Go side; used by C07, C10 and C14): the wrapped handler runs
// exactly when the route is found and the request validates - under the security callback the
// handler's public field holds at the time of the request, whether it was set before or after
// Load() - and no request makes ServeHTTP panic, whichever error encoder is configured.

import (
	"context"
	"errors"
	"fmt"
	"net/http"
	"net/http/httptest"
	"os"
	"path/filepath"
	"strings"

	"github.com/getkin/kin-openapi/openapi3filter"
)

const vhSpec = `{"openapi":"3.0.3","info":{"title":"t","version":"1"},
"components":{"securitySchemes":{"key":{"type":"apiKey","in":"header","name":"X-Key"}}},
"paths":{
 "/items":{"get":{"security":[{"key":[]}],"parameters":[{"name":"n","in":"query","required":true,"schema":{"type":"integer"}}],"responses":{"200":{"description":"ok"}}}},
 "/pub":{"get":{"parameters":[{"name":"n","in":"query","schema":{"type":"integer"}}],"responses":{"200":{"description":"ok"}}}},
 "/obj":{"get":{"parameters":[{"name":"filter","in":"query","style":"form","explode":false,"schema":{"type":"object","properties":{"color":{"type":"string"},"size":{"type":"integer"}}}}],"responses":{"200":{"description":"ok"}}}},
 "/body":{"post":{"requestBody":{"required":true,"content":{"application/json":{"schema":{"type":"object","required":["x"],"properties":{"x":{"type":"integer"}}}}}},"responses":{"200":{"description":"ok"}}}}
}}`

func validationHandlerOracles(meta *Meta) {
	viol := func(sig string, c any, detail string) {
		meta.Histogram["oracle:"+sig]++
		meta.GoViolation = append(meta.GoViolation, map[string]any{"signature": sig, "cases": []any{c}, "go_observation": detail, "judgement": sig + ": " + detail})
	}
	dir, err := os.MkdirTemp("", "vh")
	if err != nil {
		return
	}
	defer os.RemoveAll(dir)
	file := filepath.Join(dir, "spec.json")
	if os.WriteFile(file, []byte(vhSpec), 0o644) != nil {
		return
	}
	type reqSpec struct {
		Method, URL, Body string
		Valid             bool // apart from security
		Secured           bool
	}
	reqs := []reqSpec{
		{"GET", "/items?n=1", "", true, true}, {"GET", "/items?n=abc", "", false, true}, {"GET", "/items", "", false, true},
		{"GET", "/pub", "", true, false}, {"GET", "/pub?n=2", "", true, false}, {"GET", "/pub?n=x", "", false, false},
		{"GET", "/obj?filter=color,red", "", true, false}, {"GET", "/obj?filter=color,red,size", "", false, false}, {"GET", "/obj?filter=size,abc", "", false, false},
		{"POST", "/body", `{"x":1}`, true, false}, {"POST", "/body", `{"x":"no"}`, false, false}, {"POST", "/body", `{"x":`, false, false}, {"POST", "/body", ``, false, false},
		{"GET", "/nowhere", "", false, false}, {"DELETE", "/pub", "", false, false},
	}
	for _, when := range []string{"before-load", "after-load", "never"} {
		for _, allow := range []bool{true, false} {
			for _, encoder := range []string{"default", "validation-error-encoder"} {
				for _, r := range reqs {
					asked := 0
					auth := func(context.Context, *openapi3filter.AuthenticationInput) error {
						asked++
						if allow {
							return nil
						}
						return errors.New("denied")
					}
					ran := false
					h := &openapi3filter.ValidationHandler{File: file, Handler: http.HandlerFunc(func(w http.ResponseWriter, _ *http.Request) { ran = true; w.WriteHeader(200) })}
					if encoder == "validation-error-encoder" {
						h.ErrorEncoder = (&openapi3filter.ValidationErrorEncoder{Encoder: openapi3filter.DefaultErrorEncoder}).Encode
					}
					if when == "before-load" {
						h.AuthenticationFunc = auth
					}
					if err := h.Load(); err != nil {
						viol("validation-handler:load-fails", map[string]any{"spec": vhSpec}, err.Error())
						return
					}
					if when == "after-load" {
						h.AuthenticationFunc = auth
					}
					desc := map[string]any{"request": r.Method + " " + r.URL, "body": r.Body, "authentication_func": when, "callback_allows": allow, "error_encoder": encoder}
					meta.Histogram["validation handler requests"]++
					var body *httptest.ResponseRecorder
					req := httptest.NewRequest(r.Method, r.URL, nil)
					if r.Method == "POST" {
						req = httptest.NewRequest(r.Method, r.URL, strings.NewReader(r.Body))
						req.Header.Set("Content-Type", "application/json")
					}
					body = httptest.NewRecorder()
					if p := catchPanic(func() { h.ServeHTTP(body, req) }); p != nil {
						viol("validation-handler:panic", desc, fmt.Sprint(p))
						continue
					}
					// without a callback of its own the handler uses the no-op callback: every scheme is accepted
					secOK := !r.Secured || when == "never" || allow
					want := r.Valid && secOK
					if ran != want {
						viol("validation-handler:handler-run-differs", desc, fmt.Sprintf("handler ran: %v, expected %v (status %d)", ran, want, body.Code))
					}
					if !ran && body.Code >= 200 && body.Code < 300 {
						viol("validation-handler:rejected-request-answered-with-success", desc, fmt.Sprintf("status %d", body.Code))
					}
					if r.Secured && when != "never" && r.Valid && asked == 0 {
						viol("validation-handler:security-callback-not-consulted", desc, "the callback in the handler's AuthenticationFunc field was never called")
					}
				}
			}
		}
	}
}
