package main

// C07, documents that go through the loader (Go side): security requirements and parameters with
// unusual but legal names (a scheme called x-api-key, a parameter called x-id) must still be the
// parts the request is judged by - the in-memory documents of the main C07 cases never pass the
// unmarshallers.

import (
	"context"
	"errors"
	"fmt"
	"net/http"
	"net/http/httptest"
	"net/url"
	"regexp"
	"strings"

	"github.com/getkin/kin-openapi/openapi3"
	"github.com/getkin/kin-openapi/openapi3filter"
	"github.com/getkin/kin-openapi/routers"
	"github.com/getkin/kin-openapi/routers/gorillamux"
	"github.com/getkin/kin-openapi/routers/legacy"
)

func c07Loaded(meta *Meta) {
	for _, scheme := range []string{"x-api-key", "X-Key", "x_key", "key", "x-"} {
		for _, level := range []string{"operation", "document", "operation-overrides-with-empty-list", "operation-overrides-with-empty-requirement"} {
			for _, yaml := range []bool{false, true} {
				sec := fmt.Sprintf(`[{%q: []}]`, scheme)
				opSec, docSec := "", ""
				switch level {
				case "operation":
					opSec = `"security": ` + sec + `,`
				case "document":
					docSec = `"security": ` + sec + `,`
				case "operation-overrides-with-empty-list":
					// the operation's own (empty) list replaces the document's: no authentication needed
					docSec, opSec = `"security": `+sec+`,`, `"security": [],`
				default:
					docSec, opSec = `"security": `+sec+`,`, `"security": [{}],`
				}
				noAuth := level != "operation" && level != "document"
				text := `{"openapi":"3.0.3","info":{"title":"t","version":"1"},` + docSec + `"paths":{"/p":{"get":{` + opSec +
					`"parameters":[{"name":"x-id","in":"query","required":true,"schema":{"type":"integer"}}],"responses":{"200":{"description":"ok"}}}}},` +
					`"components":{"securitySchemes":{` + fmt.Sprintf("%q", scheme) + `:{"type":"apiKey","in":"header","name":"X-Auth"}}}}`
				data := []byte(text)
				if yaml {
					// JSON is YAML: the loader takes the YAML path when the bytes do not start as JSON
					data = append([]byte("# yaml\n"), data...)
				}
				desc := map[string]any{"scheme": scheme, "level": level, "yaml_path": yaml}
				meta.Histogram["loaded documents"]++
				doc, err := openapi3.NewLoader().LoadFromData(data)
				if err != nil || doc.Validate(context.Background()) != nil {
					continue
				}
				router, err := gorillamux.NewRouter(doc)
				if err != nil {
					continue
				}
				for _, accept := range []bool{false, true} {
					for _, target := range []string{"/p?x-id=5", "/p?x-id=abc", "/p"} {
						req := httptest.NewRequest("GET", target, nil)
						route, pp, err := router.FindRoute(req)
						if err != nil {
							continue
						}
						asked := 0
						opts := &openapi3filter.Options{AuthenticationFunc: func(_ context.Context, ai *openapi3filter.AuthenticationInput) error {
							if ai.SecuritySchemeName == scheme {
								asked++
							}
							if accept {
								return nil
							}
							return errors.New("denied")
						}}
						verr := openapi3filter.ValidateRequest(context.Background(), &openapi3filter.RequestValidationInput{Request: req, PathParams: pp, Route: route, Options: opts})
						want := (accept || noAuth) && target == "/p?x-id=5"
						if (verr == nil) != want {
							meta.GoViolation = append(meta.GoViolation, map[string]any{"signature": "loaded-document:verdict", "cases": []any{desc},
								"go_observation": fmt.Sprintf("target %s, callback accepts=%v: got error %v", target, accept, verr),
								"judgement":      "a document that went through the loader: the request is judged by its declared security requirement and parameter"})
						} else if noAuth && asked > 0 {
							meta.GoViolation = append(meta.GoViolation, map[string]any{"signature": "loaded-document:callback-asked-although-the-operation-needs-no-authentication", "cases": []any{desc},
								"go_observation": "the authentication callback was asked about the document-level scheme", "judgement": "an operation-level empty security list / empty requirement replaces the document's requirements"})
						} else if !noAuth && asked == 0 && target == "/p?x-id=5" {
							meta.GoViolation = append(meta.GoViolation, map[string]any{"signature": "loaded-document:callback-not-asked", "cases": []any{desc},
								"go_observation": "the authentication callback was never asked about the scheme", "judgement": "the declared requirement was not evaluated"})
						}
					}
				}
			}
		}
	}
}

// a parameter described by `content`, at path or operation level, in a document loaded from YAML with
// and without origins recorded; and a caller-supplied regex engine applied to the body while a
// parameter shares the pattern text (each part is judged by the engine the library documents for it)
func c07LoadedExtras(meta *Meta) {
	viol := func(sig string, c any, detail string) {
		meta.Histogram["oracle:"+sig]++
		meta.GoViolation = append(meta.GoViolation, map[string]any{"signature": sig, "cases": []any{c}, "go_observation": detail, "judgement": sig + ": " + detail})
	}
	for _, level := range []string{"operation", "path"} {
		for _, origins := range []bool{false, true} {
			param := `{"name":"filter","in":"query","content":{"application/json":{"schema":{"type":"object","required":["a"],"properties":{"a":{"type":"integer"}}}}}}`
			opParams, pathParams := `[]`, `[]`
			if level == "operation" {
				opParams = `[` + param + `]`
			} else {
				pathParams = `[` + param + `]`
			}
			text := "# yaml\n" + `{"openapi":"3.0.3","info":{"title":"t","version":"1"},"paths":{"/p":{"parameters":` + pathParams + `,"get":{"parameters":` + opParams + `,"responses":{"200":{"description":"ok"}}}}}}`
			desc := map[string]any{"content_parameter_level": level, "include_origin": origins}
			meta.Histogram["loaded documents"]++
			openapi3.IncludeOrigin = origins
			var doc *openapi3.T
			var err error
			p := catchPanic(func() { doc, err = openapi3.NewLoader().LoadFromData([]byte(text)) })
			openapi3.IncludeOrigin = false
			if p != nil || err != nil {
				viol("loaded-document:does-not-load", desc, fmt.Sprint(p, err))
				continue
			}
			router, err := gorillamux.NewRouter(doc)
			if err != nil {
				continue
			}
			for target, want := range map[string]bool{`/p?filter={"a":1}`: true, `/p?filter={"a":"x"}`: false, `/p`: true} {
				req := httptest.NewRequest("GET", "/p", nil)
				if len(target) > 2 {
					q := req.URL.Query()
					q.Set("filter", target[len("/p?filter="):])
					req.URL.RawQuery = q.Encode()
				}
				route, pp, err := router.FindRoute(req)
				if err != nil {
					continue
				}
				var verr error
				if p := catchPanic(func() {
					verr = openapi3filter.ValidateRequest(context.Background(), &openapi3filter.RequestValidationInput{Request: req, PathParams: pp, Route: route})
				}); p != nil {
					viol("loaded-document:panic", desc, fmt.Sprint(p))
				} else if (verr == nil) != want {
					viol("loaded-document:verdict", desc, fmt.Sprintf("target %s: got error %v", target, verr))
				}
			}
		}
	}
	// a batch: the routes of several requests to one path are found first, each request is validated afterwards
	// against the route found for it (its own method's security requirement, parameters and body)
	for _, rk := range []string{"gorillamux", "legacy"} {
		text := `{"openapi":"3.0.3","info":{"title":"t","version":"1"},"paths":{"/items":{` +
			`"get":{"responses":{"200":{"description":"ok"}}},` +
			`"delete":{"security":[{"key":[]}],"responses":{"200":{"description":"ok"}}},` +
			`"post":{"requestBody":{"required":true,"content":{"application/json":{"schema":{"type":"object","required":["n"],"properties":{"n":{"type":"integer"}}}}}},"responses":{"200":{"description":"ok"}}},` +
			`"put":{"parameters":[{"name":"v","in":"query","required":true,"schema":{"type":"integer"}}],"responses":{"200":{"description":"ok"}}}}},` +
			`"components":{"securitySchemes":{"key":{"type":"apiKey","in":"header","name":"X-Auth"}}}}`
		doc, err := openapi3.NewLoader().LoadFromData([]byte(text))
		if err != nil || doc.Validate(context.Background()) != nil {
			continue
		}
		var find func(*http.Request) (*routers.Route, map[string]string, error)
		if rk == "gorillamux" {
			r, err := gorillamux.NewRouter(doc)
			if err != nil {
				continue
			}
			find = r.FindRoute
		} else {
			r, err := legacy.NewRouter(doc)
			if err != nil {
				continue
			}
			find = r.FindRoute
		}
		type one struct {
			method, target, body string
			want                 bool
		}
		all := []one{{"GET", "/items", "", true}, {"DELETE", "/items", "", false}, {"POST", "/items", "", false}, {"POST", "/items", `{"n":1}`, true},
			{"PUT", "/items", "", false}, {"PUT", "/items?v=3", "", true}}
		for rot := 0; rot < len(all); rot++ {
			batch := append(append([]one{}, all[rot:]...), all[:rot]...)
			type found struct {
				req   *http.Request
				route *routers.Route
				pp    map[string]string
			}
			var fs []found
			for _, b := range batch {
				req := httptest.NewRequest(b.method, b.target, strings.NewReader(b.body))
				if b.body != "" {
					req.Header.Set("Content-Type", "application/json")
				}
				route, pp, err := find(req)
				if err != nil {
					viol("batch:route-not-found", map[string]any{"router": rk, "method": b.method, "target": b.target}, err.Error())
					continue
				}
				fs = append(fs, found{req, route, pp})
			}
			if len(fs) != len(batch) {
				continue
			}
			for i, b := range batch {
				meta.Histogram["batch: routes found first, validated afterwards"]++
				opts := &openapi3filter.Options{AuthenticationFunc: func(context.Context, *openapi3filter.AuthenticationInput) error { return errors.New("denied") }}
				var verr error
				desc := map[string]any{"router": rk, "rotation": rot, "position": i, "method": b.method, "target": b.target, "body": b.body}
				if p := catchPanic(func() {
					verr = openapi3filter.ValidateRequest(context.Background(), &openapi3filter.RequestValidationInput{Request: fs[i].req, PathParams: fs[i].pp, Route: fs[i].route, Options: opts})
				}); p != nil {
					viol("batch:panic", desc, fmt.Sprint(p))
				} else if (verr == nil) != b.want {
					viol("batch:request-judged-by-another-requests-operation", desc, fmt.Sprintf("route says %s; expected accepted=%v, got error %v", fs[i].route.Method, b.want, verr))
				}
			}
		}
	}
	// a specification of two files, used as loaded and used after InternalizeRefs + writing + reading back: the
	// parameters in effect are the ones the files declare - a path item taken from another file keeps that file's components
	{
		store := map[string]string{
			"/api/root.json": `{"openapi":"3.0.3","info":{"title":"r","version":"1"},"paths":{"/items":{"$ref":"other.json#/paths/~1items"}},` +
				`"components":{"parameters":{"Limit":{"name":"limit","in":"query","schema":{"type":"integer","maximum":10}},"Sort":{"name":"sort","in":"query","schema":{"type":"string","enum":["root"]}}}}}`,
			"/api/other.json": `{"openapi":"3.0.3","info":{"title":"o","version":"1"},"paths":{"/items":{"parameters":[{"$ref":"#/components/parameters/Limit"}],` +
				`"get":{"parameters":[{"$ref":"#/components/parameters/Sort"}],"responses":{"200":{"description":"ok"}}}}},` +
				`"components":{"parameters":{"Limit":{"name":"limit","in":"query","required":true,"schema":{"type":"integer","maximum":1000}},"Sort":{"name":"sort","in":"query","schema":{"type":"string","enum":["other"]}}}}}`,
		}
		loader := openapi3.NewLoader()
		loader.IsExternalRefsAllowed = true
		loader.ReadFromURIFunc = func(_ *openapi3.Loader, u *url.URL) ([]byte, error) {
			if d, ok := store[u.Path]; ok {
				return []byte(d), nil
			}
			return nil, fmt.Errorf("not found: %s", u)
		}
		doc, err := loader.LoadFromURI(&url.URL{Path: "/api/root.json"})
		if err == nil {
			stages := map[string]*openapi3.T{"as loaded": doc}
			var internalised *openapi3.T
			if p := catchPanic(func() {
				doc2, err2 := loader.LoadFromURI(&url.URL{Path: "/api/root.json"})
				if err2 != nil {
					return
				}
				doc2.InternalizeRefs(context.Background(), nil)
				b, merr := doc2.MarshalJSON()
				if merr != nil {
					return
				}
				internalised, _ = openapi3.NewLoader().LoadFromData(b)
			}); p == nil && internalised != nil {
				stages["internalised, written and read back"] = internalised
			} else {
				viol("two-files:internalised-document-does-not-load", map[string]any{"files": []string{"root.json", "other.json"}}, fmt.Sprint(p))
			}
			for stage, d := range stages {
				router, err := gorillamux.NewRouter(d)
				if err != nil {
					viol("two-files:router", map[string]any{"stage": stage}, err.Error())
					continue
				}
				for target, want := range map[string]bool{"/items?limit=500": true, "/items": false, "/items?limit=5000": false, "/items?limit=5&sort=other": true, "/items?limit=5&sort=root": false} {
					req := httptest.NewRequest("GET", target, nil)
					route, pp, err := router.FindRoute(req)
					if err != nil {
						viol("two-files:route", map[string]any{"stage": stage, "target": target}, err.Error())
						continue
					}
					meta.Histogram["two-file specification requests"]++
					verr := openapi3filter.ValidateRequest(context.Background(), &openapi3filter.RequestValidationInput{Request: req, PathParams: pp, Route: route})
					if (verr == nil) != want {
						viol("two-files:request-judged-by-the-other-files-parameter", map[string]any{"stage": stage, "target": target}, fmt.Sprintf("expected accepted=%v, got error %v", want, verr))
					}
				}
			}
		}
	}
	// the body is judged by the engine the caller supplied, whatever engine a parameter with the same pattern text was judged by
	{
		text := `{"openapi":"3.0.3","info":{"title":"t","version":"1"},"components":{"schemas":{"Code":{"type":"string","pattern":"^[A-Z]+$"}}},` +
			`"paths":{"/p":{"post":{"parameters":[{"name":"q","in":"query","schema":{"$ref":"#/components/schemas/Code"}}],` +
			`"requestBody":{"content":{"application/json":{"schema":{"type":"object","properties":{"code":{"$ref":"#/components/schemas/Code"}}}}}},"responses":{"200":{"description":"ok"}}}}}}`
		doc, err := openapi3.NewLoader().LoadFromData([]byte(text))
		if err == nil {
			if router, err := gorillamux.NewRouter(doc); err == nil {
				ci := func(expr string) (openapi3.RegexMatcher, error) { return regexp.Compile("(?i)" + expr) }
				for round := 0; round < 3; round++ {
					for _, tc := range []struct {
						q, body string
						engine  bool
						want    bool
					}{{"ABC", `{"code":"abc"}`, true, true}, {"ABC", `{"code":"abc"}`, false, false}, {"ABC", `{"code":"ABC"}`, false, true}, {"ABC", `{"code":"a1"}`, true, false}} {
						req := httptest.NewRequest("POST", "/p?q="+tc.q, strings.NewReader(tc.body))
						req.Header.Set("Content-Type", "application/json")
						route, pp, err := router.FindRoute(req)
						if err != nil {
							continue
						}
						opts := &openapi3filter.Options{}
						if tc.engine {
							opts.RegexCompiler = ci
						}
						meta.Histogram["loaded documents"]++
						verr := openapi3filter.ValidateRequest(context.Background(), &openapi3filter.RequestValidationInput{Request: req, PathParams: pp, Route: route, Options: opts})
						if (verr == nil) != tc.want {
							viol("loaded-document:regex-engine", map[string]any{"query": tc.q, "body": tc.body, "case_insensitive_engine_supplied": tc.engine, "round": round},
								fmt.Sprintf("expected accepted=%v, got error %v", tc.want, verr))
						}
					}
				}
			}
		}
	}
}
