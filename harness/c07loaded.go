package main

// C07, documents that go through the loader (Go side): security requirements and parameters with
// unusual but legal names (a scheme called x-api-key, a parameter called x-id) must still be the
// parts the request is judged by - the in-memory documents of the main C07 cases never pass the
// unmarshallers.

import (
	"context"
	"errors"
	"fmt"
	"net/http/httptest"

	"github.com/getkin/kin-openapi/openapi3"
	"github.com/getkin/kin-openapi/openapi3filter"
	"github.com/getkin/kin-openapi/routers/gorillamux"
)

func c07Loaded(meta *Meta) {
	for _, scheme := range []string{"x-api-key", "X-Key", "x_key", "key", "x-"} {
		for _, level := range []string{"operation", "document", "operation-overrides-with-empty-list", "operation-overrides-with-empty-requirement"} {
			for _, yaml := range []bool{false, true} {
				sec := fmt.Sprintf(`[{%q: []}]`, scheme)
				opSec, docSec := "", ""
				switch level {
				case "operation":
					opSec = `"security": ` + sec + `,`
				case "document":
					docSec = `"security": ` + sec + `,`
				case "operation-overrides-with-empty-list":
					// the operation's own (empty) list replaces the document's: no authentication needed
					docSec, opSec = `"security": `+sec+`,`, `"security": [],`
				default:
					docSec, opSec = `"security": `+sec+`,`, `"security": [{}],`
				}
				noAuth := level != "operation" && level != "document"
				text := `{"openapi":"3.0.3","info":{"title":"t","version":"1"},` + docSec + `"paths":{"/p":{"get":{` + opSec +
					`"parameters":[{"name":"x-id","in":"query","required":true,"schema":{"type":"integer"}}],"responses":{"200":{"description":"ok"}}}}},` +
					`"components":{"securitySchemes":{` + fmt.Sprintf("%q", scheme) + `:{"type":"apiKey","in":"header","name":"X-Auth"}}}}`
				data := []byte(text)
				if yaml {
					// JSON is YAML: the loader takes the YAML path when the bytes do not start as JSON
					data = append([]byte("# yaml\n"), data...)
				}
				desc := map[string]any{"scheme": scheme, "level": level, "yaml_path": yaml}
				meta.Histogram["loaded documents"]++
				doc, err := openapi3.NewLoader().LoadFromData(data)
				if err != nil || doc.Validate(context.Background()) != nil {
					continue
				}
				router, err := gorillamux.NewRouter(doc)
				if err != nil {
					continue
				}
				for _, accept := range []bool{false, true} {
					for _, target := range []string{"/p?x-id=5", "/p?x-id=abc", "/p"} {
						req := httptest.NewRequest("GET", target, nil)
						route, pp, err := router.FindRoute(req)
						if err != nil {
							continue
						}
						asked := 0
						opts := &openapi3filter.Options{AuthenticationFunc: func(_ context.Context, ai *openapi3filter.AuthenticationInput) error {
							if ai.SecuritySchemeName == scheme {
								asked++
							}
							if accept {
								return nil
							}
							return errors.New("denied")
						}}
						verr := openapi3filter.ValidateRequest(context.Background(), &openapi3filter.RequestValidationInput{Request: req, PathParams: pp, Route: route, Options: opts})
						want := (accept || noAuth) && target == "/p?x-id=5"
						if (verr == nil) != want {
							meta.GoViolation = append(meta.GoViolation, map[string]any{"signature": "loaded-document:verdict", "cases": []any{desc},
								"go_observation": fmt.Sprintf("target %s, callback accepts=%v: got error %v", target, accept, verr),
								"judgement": "a document that went through the loader: the request is judged by its declared security requirement and parameter"})
						} else if noAuth && asked > 0 {
							meta.GoViolation = append(meta.GoViolation, map[string]any{"signature": "loaded-document:callback-asked-although-the-operation-needs-no-authentication", "cases": []any{desc},
								"go_observation": "the authentication callback was asked about the document-level scheme", "judgement": "an operation-level empty security list / empty requirement replaces the document's requirements"})
						} else if !noAuth && asked == 0 && target == "/p?x-id=5" {
							meta.GoViolation = append(meta.GoViolation, map[string]any{"signature": "loaded-document:callback-not-asked", "cases": []any{desc},
								"go_observation": "the authentication callback was never asked about the scheme", "judgement": "the declared requirement was not evaluated"})
						}
					}
				}
			}
		}
	}
}
