package main

// C04: document validation.  The harness owns a grammar of OpenAPI 3.0 containment (kind of every
// child position), builds conforming documents as plain JSON, applies benign variations and
// single-rule violations at random positions, and hands (a) the JSON to the library
// (loader + Validate, or Unmarshal + Validate for unresolved references) and (b) the kind-annotated
// tree to the Coq model and specification.

import (
	"context"
	"encoding/json"
	"fmt"
	"net/url"
	"os"
	"reflect"
	"regexp"
	"sort"
	"strings"

	"github.com/getkin/kin-openapi/openapi3"
)

type C04Opts struct {
	Allowed []string `json:"allowed,omitempty"`
	Split   bool     `json:"allowed_one_option_per_field,omitempty"` // each allowed field in its own AllowExtraSiblingFields option
	Fmt     bool     `json:"format_validation,omitempty"`
	NoPat   bool     `json:"pattern_validation_disabled,omitempty"`
	NoDef   bool     `json:"defaults_validation_disabled,omitempty"`
	NoEx    bool     `json:"examples_validation_disabled,omitempty"`
	NoExt   bool     `json:"extensions_with_ref_prohibited,omitempty"`
	Noop    bool     `json:"noop_option,omitempty"` // an option that changes no setting (the options struct then lives in the context)
	Seq     []string `json:"sequence,omitempty"`    // options in call order (Enable*/Disable* pairs): the last call for a setting decides
}

func (o C04Opts) has() bool {
	return len(o.Allowed) > 0 || o.Fmt || o.NoPat || o.NoDef || o.NoEx || o.NoExt || o.Noop || len(o.Seq) > 0
}

var c04SeqOpts = map[string]func() openapi3.ValidationOption{
	"EnableSchemaFormatValidation": openapi3.EnableSchemaFormatValidation, "DisableSchemaFormatValidation": openapi3.DisableSchemaFormatValidation,
	"EnableSchemaPatternValidation": openapi3.EnableSchemaPatternValidation, "DisableSchemaPatternValidation": openapi3.DisableSchemaPatternValidation,
	"EnableSchemaDefaultsValidation": openapi3.EnableSchemaDefaultsValidation, "DisableSchemaDefaultsValidation": openapi3.DisableSchemaDefaultsValidation,
	"EnableExamplesValidation": openapi3.EnableExamplesValidation, "DisableExamplesValidation": openapi3.DisableExamplesValidation,
	"AllowExtensionsWithRef": openapi3.AllowExtensionsWithRef, "ProhibitExtensionsWithRef": openapi3.ProhibitExtensionsWithRef,
}

// the settings a sequence of option calls denotes: each call sets the one setting it names
func (o C04Opts) effective() C04Opts {
	e := o
	for _, n := range o.Seq {
		switch n {
		case "EnableSchemaFormatValidation":
			e.Fmt = true
		case "DisableSchemaFormatValidation":
			e.Fmt = false
		case "EnableSchemaPatternValidation":
			e.NoPat = false
		case "DisableSchemaPatternValidation":
			e.NoPat = true
		case "EnableSchemaDefaultsValidation":
			e.NoDef = false
		case "DisableSchemaDefaultsValidation":
			e.NoDef = true
		case "EnableExamplesValidation":
			e.NoEx = false
		case "DisableExamplesValidation":
			e.NoEx = true
		case "AllowExtensionsWithRef":
			e.NoExt = false
		case "ProhibitExtensionsWithRef":
			e.NoExt = true
		}
	}
	return e
}

type C04Case struct {
	Doc  map[string]any `json:"doc"`
	Raw  bool           `json:"raw"` // json.Unmarshal only: references stay unresolved
	Opts C04Opts        `json:"opts"`
	Muts []string       `json:"mutations"`
}

type C04Obs struct {
	Load  string `json:"load_error,omitempty"`
	Valid bool   `json:"valid"`
	Err   string `json:"error,omitempty"`
	Panic string `json:"panic,omitempty"`
}

// ---- grammar ----
type gfield struct {
	kind  string
	shape int // 0 single object, 1 map of objects, 2 list of objects
}

var c04Grammar = map[string]map[string]gfield{
	"Doc": {"components": {"Components", 0}, "info": {"Info", 0}, "paths": {"Paths", 0}, "security": {"SecurityRequirement", 2},
		"servers": {"Server", 2}, "tags": {"Tag", 2}, "externalDocs": {"ExternalDocs", 0}},
	"Components": {"schemas": {"Schema", 1}, "parameters": {"Parameter", 1}, "requestBodies": {"RequestBody", 1}, "responses": {"Response", 1},
		"headers": {"Header", 1}, "securitySchemes": {"SecurityScheme", 1}, "examples": {"Example", 1}, "links": {"Link", 1}, "callbacks": {"Callback", 1}},
	"Info":     {"contact": {"Contact", 0}, "license": {"License", 0}},
	"PathItem": {"parameters": {"Parameter", 2}, "servers": {"Server", 2}},
	"Operation": {"parameters": {"Parameter", 2}, "requestBody": {"RequestBody", 0}, "responses": {"Responses", 0}, "externalDocs": {"ExternalDocs", 0},
		"callbacks": {"Callback", 1}, "servers": {"Server", 2}, "security": {"SecurityRequirement", 2}},
	"Parameter":   {"schema": {"Schema", 0}, "content": {"MediaType", 1}, "examples": {"Example", 1}},
	"Header":      {"schema": {"Schema", 0}, "content": {"MediaType", 1}, "examples": {"Example", 1}},
	"MediaType":   {"schema": {"Schema", 0}, "examples": {"Example", 1}, "encoding": {"Encoding", 1}},
	"RequestBody": {"content": {"MediaType", 1}},
	"Response":    {"content": {"MediaType", 1}, "headers": {"Header", 1}, "links": {"Link", 1}},
	"Schema": {"oneOf": {"Schema", 2}, "anyOf": {"Schema", 2}, "allOf": {"Schema", 2}, "not": {"Schema", 0}, "items": {"Schema", 0},
		"properties": {"Schema", 1}, "additionalProperties": {"Schema", 0}, "externalDocs": {"ExternalDocs", 0},
		"discriminator": {"Discriminator", 0}, "xml": {"XML", 0}},
	"SecurityScheme": {"flows": {"OAuthFlows", 0}},
	"OAuthFlows": {"implicit": {"OAuthFlow", 0}, "password": {"OAuthFlow", 0}, "clientCredentials": {"OAuthFlow", 0},
		"authorizationCode": {"OAuthFlow", 0}},
	"Server":   {"variables": {"ServerVariable", 1}},
	"Tag":      {"externalDocs": {"ExternalDocs", 0}},
	"Encoding": {"headers": {"Header", 1}},
	"Link":     {"server": {"Server", 0}},
}

// map-like kinds: every member that is not an extension is a child
var c04MapLike = map[string]string{"Paths": "PathItem", "Responses": "Response", "Callback": "PathItem"}
var c04Refable = map[string]bool{"Schema": true, "Parameter": true, "Header": true, "RequestBody": true, "Response": true,
	"SecurityScheme": true, "Example": true, "Link": true, "Callback": true}
var c04Methods = []string{"connect", "delete", "get", "head", "options", "patch", "post", "put", "trace"}

var c04GoTypes = map[string]reflect.Type{
	"Doc": reflect.TypeOf(openapi3.T{}), "Components": reflect.TypeOf(openapi3.Components{}), "Info": reflect.TypeOf(openapi3.Info{}),
	"Contact": reflect.TypeOf(openapi3.Contact{}), "License": reflect.TypeOf(openapi3.License{}), "PathItem": reflect.TypeOf(openapi3.PathItem{}),
	"Operation": reflect.TypeOf(openapi3.Operation{}), "Parameter": reflect.TypeOf(openapi3.Parameter{}), "Header": reflect.TypeOf(openapi3.Parameter{}),
	"RequestBody": reflect.TypeOf(openapi3.RequestBody{}), "Response": reflect.TypeOf(openapi3.Response{}), "MediaType": reflect.TypeOf(openapi3.MediaType{}),
	"Schema": reflect.TypeOf(openapi3.Schema{}), "Example": reflect.TypeOf(openapi3.Example{}), "Link": reflect.TypeOf(openapi3.Link{}),
	"SecurityScheme": reflect.TypeOf(openapi3.SecurityScheme{}), "OAuthFlows": reflect.TypeOf(openapi3.OAuthFlows{}), "OAuthFlow": reflect.TypeOf(openapi3.OAuthFlow{}),
	"Server": reflect.TypeOf(openapi3.Server{}), "ServerVariable": reflect.TypeOf(openapi3.ServerVariable{}), "Tag": reflect.TypeOf(openapi3.Tag{}),
	"ExternalDocs": reflect.TypeOf(openapi3.ExternalDocs{}), "Encoding": reflect.TypeOf(openapi3.Encoding{}), "Discriminator": reflect.TypeOf(openapi3.Discriminator{}),
	"XML": reflect.TypeOf(openapi3.XML{}),
}
var c04KnownCache = map[string]map[string]bool{}

// the member names a kind defines (json tags of the Go struct: what unmarshalling does not put into Extensions)
func c04Known(kind string) map[string]bool {
	if m, ok := c04KnownCache[kind]; ok {
		return m
	}
	m := map[string]bool{}
	if t, ok := c04GoTypes[kind]; ok {
		for i := 0; i < t.NumField(); i++ {
			tag := strings.Split(t.Field(i).Tag.Get("json"), ",")[0]
			if tag != "" && tag != "-" {
				m[tag] = true
			}
		}
	}
	c04KnownCache[kind] = m
	return m
}

// ---- the kind-annotated tree ----
type DRef struct {
	Resolved bool
	Sib      []string
}
type DKid struct {
	Edge, Key string
	Node      *DNode
}
type DNode struct {
	Kind  string
	Ref   *DRef
	Attrs map[string]any
	Kids  []DKid
}

type c04Walker struct {
	root map[string]any
	raw  bool
}

func c04Lookup(root map[string]any, ref string) any {
	if !strings.HasPrefix(ref, "#/") {
		return nil
	}
	var cur any = root
	for _, tok := range strings.Split(ref[2:], "/") {
		tok = strings.ReplaceAll(strings.ReplaceAll(tok, "~1", "/"), "~0", "~")
		m, ok := cur.(map[string]any)
		if !ok {
			return nil
		}
		cur = m[tok]
	}
	return cur
}

// schema JSON with every reference replaced by its target (the generator keeps reference graphs acyclic)
func c04Inline(root map[string]any, v any, depth int) any {
	if depth > 40 {
		return v
	}
	switch x := v.(type) {
	case map[string]any:
		if ref, ok := x["$ref"].(string); ok {
			return c04Inline(root, c04Lookup(root, ref), depth+1)
		}
		out := map[string]any{}
		for k, e := range x {
			if k == "example" || k == "default" || k == "enum" {
				out[k] = e
			} else {
				out[k] = c04Inline(root, e, depth+1)
			}
		}
		return out
	case []any:
		out := make([]any, len(x))
		for i := range x {
			out[i] = c04Inline(root, x[i], depth+1)
		}
		return out
	}
	return v
}

func c04SchemaOf(root map[string]any, sj any) *openapi3.Schema {
	b, err := json.Marshal(c04Inline(root, sj, 0))
	if err != nil {
		return nil
	}
	var s openapi3.Schema
	if err := s.UnmarshalJSON(b); err != nil {
		return nil
	}
	return &s
}

// Schema.VisitJSON is the oracle owned by C01: mode 0 plain, 1 as request, 2 as response
func c04Visit(s *openapi3.Schema, v any, mode int) bool {
	if s == nil {
		return true
	}
	opts := []openapi3.SchemaValidationOption{}
	if mode == 1 {
		opts = append(opts, openapi3.VisitAsRequest())
	} else if mode == 2 {
		opts = append(opts, openapi3.VisitAsResponse())
	}
	// whether a value satisfies a schema does not depend on how errors are collected: the value counts as
	// satisfying when both the fail-at-first-error and the collect-every-error mode say so (document
	// validation uses the collecting mode for examples, the other one for defaults)
	var err, errMulti error
	if p := catchPanic(func() { err = s.VisitJSON(v, opts...) }); p != nil {
		return false
	}
	if p := catchPanic(func() { errMulti = s.VisitJSON(v, append(opts, openapi3.MultiErrors())...) }); p != nil {
		return false
	}
	if (err == nil) != (errMulti == nil) {
		c04ModeSplit++
	}
	return err == nil && errMulti == nil
}

// number of (schema, value) pairs of the run on which the two error modes disagreed
var c04ModeSplit int

func (w *c04Walker) setVisit(attrs map[string]any, pre string, s *openapi3.Schema, v any) {
	attrs[pre+"none"] = c04Visit(s, v, 0)
	attrs[pre+"req"] = c04Visit(s, v, 1)
	attrs[pre+"res"] = c04Visit(s, v, 2)
}

func (w *c04Walker) node(kind string, v any, depth int) *DNode {
	n := &DNode{Kind: kind, Attrs: map[string]any{}}
	obj, ok := v.(map[string]any)
	if !ok || depth > 60 {
		return n
	}
	if ref, isRef := obj["$ref"].(string); isRef && c04Refable[kind] {
		var sib []string
		for _, k := range sortedKeys(obj) {
			if k != "$ref" {
				sib = append(sib, k)
			}
		}
		target := c04Lookup(w.root, ref)
		if w.raw || target == nil {
			n.Ref = &DRef{false, sib}
			return n
		}
		t := w.node(kind, target, depth+1)
		if t.Ref != nil && !t.Ref.Resolved {
			n.Ref = &DRef{false, sib}
			return n
		}
		t.Ref = &DRef{true, sib}
		return t
	}
	if elem, isMap := c04MapLike[kind]; isMap {
		var unknown []any
		for _, k := range sortedKeys(obj) {
			if strings.HasPrefix(k, "x-") {
				unknown = append(unknown, k)
				continue
			}
			n.Kids = append(n.Kids, DKid{"items", k, w.node(elem, obj[k], depth+1)})
		}
		n.Attrs["#unknown"] = unknown
		return n
	}
	if kind == "SecurityRequirement" {
		return n
	}
	g := c04Grammar[kind]
	known := c04Known(kind)
	var unknown []any
	for _, k := range sortedKeys(obj) {
		val := obj[k]
		if kind == "PathItem" && containsStr(c04Methods, k) {
			if val != nil {
				n.Kids = append(n.Kids, DKid{"operations", k, w.node("Operation", val, depth+1)})
			}
			continue
		}
		if f, isChild := g[k]; isChild {
			switch f.shape {
			case 0:
				if m, isObj := val.(map[string]any); isObj {
					n.Kids = append(n.Kids, DKid{k, "", w.node(f.kind, m, depth+1)})
				}
			case 1:
				if m, isObj := val.(map[string]any); isObj {
					for _, mk := range sortedKeys(m) {
						n.Kids = append(n.Kids, DKid{k, mk, w.node(f.kind, m[mk], depth+1)})
					}
				}
			case 2:
				if l, isList := val.([]any); isList {
					for i, e := range l {
						n.Kids = append(n.Kids, DKid{k, fmt.Sprint(i), w.node(f.kind, e, depth+1)})
					}
				}
			}
			continue
		}
		if !known[k] {
			unknown = append(unknown, k)
			continue
		}
		switch val.(type) {
		case string, bool:
			n.Attrs[k] = val
		}
	}
	n.Attrs["#unknown"] = unknown
	// presence flags and oracle outcomes
	switch kind {
	case "Schema":
		if p, _ := obj["pattern"].(string); p != "" {
			_, err := regexp.Compile(p)
			n.Attrs["#pat_ok"] = err == nil
		}
		if obj["default"] != nil || obj["example"] != nil {
			s := c04SchemaOf(w.root, obj)
			if d := obj["default"]; d != nil {
				n.Attrs["#def_ok"] = c04Visit(s, d, 0)
			}
			if e := obj["example"]; e != nil {
				w.setVisit(n.Attrs, "#ex_", s, e)
			}
		}
	case "Parameter", "Header", "MediaType":
		if obj["example"] != nil {
			n.Attrs["#has_example"] = true
		}
		if obj["examples"] != nil {
			n.Attrs["#has_examples"] = true
		}
		if sj, has := obj["schema"].(map[string]any); has && !w.raw {
			s := c04SchemaOf(w.root, sj)
			if e := obj["example"]; e != nil {
				w.setVisit(n.Attrs, "#ex_", s, e)
			}
			for i := range n.Kids {
				if n.Kids[i].Edge == "examples" {
					ex := n.Kids[i].Node
					var val any
					if exs, ok := obj["examples"].(map[string]any); ok {
						if eo, ok := exs[n.Kids[i].Key].(map[string]any); ok {
							if ref, isRef := eo["$ref"].(string); isRef {
								eo, _ = c04Lookup(w.root, ref).(map[string]any)
							}
							if eo != nil {
								val = eo["value"]
							}
						}
					}
					if ex.Ref == nil || ex.Ref.Resolved {
						// a copy: the same component example may be checked against several schemas
						cp := *ex
						cp.Attrs = map[string]any{}
						for k, v := range ex.Attrs {
							cp.Attrs[k] = v
						}
						w.setVisit(cp.Attrs, "#val_", s, val)
						n.Kids[i].Node = &cp
					}
				}
			}
		}
	case "Example":
		if obj["value"] != nil {
			n.Attrs["#has_value"] = true
		}
	case "RequestBody":
		if obj["content"] != nil {
			n.Attrs["#has_content"] = true
		}
	case "Response":
		if _, isStr := obj["description"].(string); isStr {
			n.Attrs["#has_description"] = true
		}
	case "OAuthFlow":
		if obj["scopes"] != nil {
			n.Attrs["#has_scopes"] = true
		}
		for _, f := range [][2]string{{"refreshUrl", "#refresh_ok"}, {"authorizationUrl", "#auth_ok"}, {"tokenUrl", "#token_ok"}} {
			if u, _ := obj[f[0]].(string); u != "" {
				_, err := url.Parse(u)
				n.Attrs[f[1]] = err == nil
			}
		}
	case "ExternalDocs":
		if u, _ := obj["url"].(string); u != "" {
			_, err := url.Parse(u)
			n.Attrs["#url_ok"] = err == nil
		}
	}
	return n
}

func containsStr(l []string, s string) bool {
	for _, x := range l {
		if x == s {
			return true
		}
	}
	return false
}

func (n *DNode) Coq() string {
	ref := "RNone"
	if n.Ref != nil {
		ref = fmt.Sprintf("(RRef %s %s)", coqBool(n.Ref.Resolved), coqStrList(n.Ref.Sib))
	}
	var attrs []string
	for _, k := range sortedKeys(n.Attrs) {
		v := n.Attrs[k]
		if l, ok := v.([]any); ok && l == nil {
			v = []any{}
		}
		attrs = append(attrs, fmt.Sprintf("(%s, %s)", coqStr(k), coqJSON(v)))
	}
	var kids []string
	for _, k := range n.Kids {
		kids = append(kids, fmt.Sprintf("(%s, %s, %s)", coqStr(k.Edge), coqStr(k.Key), k.Node.Coq()))
	}
	return fmt.Sprintf("(DN %s %s %s %s)", coqStr(n.Kind), ref, coqList(attrs), coqList(kids))
}

// shared subtrees are emitted once per file as definitions: all cases derive from one base document
type c04Emitter struct {
	names map[string]string
	defs  []string
}

func (e *c04Emitter) emit(n *DNode) string {
	ref := "RNone"
	if n.Ref != nil {
		ref = fmt.Sprintf("(RRef %s %s)", coqBool(n.Ref.Resolved), coqStrList(n.Ref.Sib))
	}
	var attrs []string
	for _, k := range sortedKeys(n.Attrs) {
		v := n.Attrs[k]
		if l, ok := v.([]any); ok && l == nil {
			v = []any{}
		}
		attrs = append(attrs, fmt.Sprintf("(%s, %s)", coqStr(k), coqJSON(v)))
	}
	var kids []string
	for _, k := range n.Kids {
		kids = append(kids, fmt.Sprintf("(%s, %s, %s)", coqStr(k.Edge), coqStr(k.Key), e.emit(k.Node)))
	}
	text := fmt.Sprintf("(DN %s %s %s %s)", coqStr(n.Kind), ref, coqList(attrs), coqList(kids))
	if name, ok := e.names[text]; ok {
		return name
	}
	name := fmt.Sprintf("n%d", len(e.names))
	e.names[text] = name
	e.defs = append(e.defs, fmt.Sprintf("Definition %s : dnode := %s.", name, text))
	return name
}

func (o0 C04Opts) Coq() string {
	o := o0.effective()
	return fmt.Sprintf("(mkVO %s %s %s %s %s %s %s)", coqBool(o.has()), coqStrList(o.Allowed), coqBool(o.Fmt), coqBool(o.NoPat),
		coqBool(o.NoDef), coqBool(o.NoEx), coqBool(o.NoExt))
}

func (o C04Opts) goOpts() []openapi3.ValidationOption {
	var out []openapi3.ValidationOption
	if o.Noop {
		// first, so that it cannot undo a DisableSchemaPatternValidation asked for below
		out = append(out, openapi3.EnableSchemaPatternValidation())
	}
	if len(o.Allowed) > 0 && o.Split {
		for _, f := range o.Allowed {
			out = append(out, openapi3.AllowExtraSiblingFields(f))
		}
	} else if len(o.Allowed) > 0 {
		out = append(out, openapi3.AllowExtraSiblingFields(o.Allowed...))
	}
	if o.Fmt {
		out = append(out, openapi3.EnableSchemaFormatValidation())
	}
	if o.NoPat {
		out = append(out, openapi3.DisableSchemaPatternValidation())
	}
	if o.NoDef {
		out = append(out, openapi3.DisableSchemaDefaultsValidation())
	}
	if o.NoEx {
		out = append(out, openapi3.DisableExamplesValidation())
	}
	if o.NoExt {
		out = append(out, openapi3.ProhibitExtensionsWithRef())
	}
	for _, n := range o.Seq {
		out = append(out, c04SeqOpts[n]())
	}
	return out
}

func runC04(c *C04Case) C04Obs {
	var o C04Obs
	data, err := json.Marshal(c.Doc)
	must(err)
	var doc *openapi3.T
	if p := catchPanic(func() {
		if c.Raw {
			doc = &openapi3.T{}
			err = doc.UnmarshalJSON(data)
		} else {
			doc, err = openapi3.NewLoader().LoadFromData(data)
		}
	}); p != nil {
		o.Load = "panic: " + fmt.Sprint(p)
		return o
	}
	if err != nil {
		o.Load = err.Error()
		return o
	}
	if p := catchPanic(func() { err = doc.Validate(context.Background(), c.Opts.goOpts()...) }); p != nil {
		o.Panic = fmt.Sprint(p)
		return o
	}
	o.Valid = err == nil
	if err != nil {
		o.Err = err.Error()
		if len(o.Err) > 300 {
			o.Err = o.Err[:300]
		}
	}
	return o
}

func c04Tree(c *C04Case) *DNode {
	w := &c04Walker{root: c.Doc, raw: c.Raw}
	return w.node("Doc", c.Doc, 0)
}

// ---- conforming documents ----
func jobj(kv ...any) map[string]any {
	m := map[string]any{}
	for i := 0; i+1 < len(kv); i += 2 {
		m[kv[i].(string)] = kv[i+1]
	}
	return m
}
func jref(kind, name string) map[string]any { return jobj("$ref", "#/components/"+kind+"/"+name) }

func c04Base(r *Rng) map[string]any {
	okResp := func(desc string) map[string]any { return jobj("description", desc) }
	schemas := jobj(
		"Tag", jobj("type", "string", "pattern", "^[a-z]+$", "maxLength", 10.0, "default", "x", "example", "abc"),
		"Pet", jobj("type", "object", "required", []any{"name"}, "properties", jobj(
			"id", jobj("type", "integer", "format", "int64", "readOnly", true),
			"name", jobj("type", "string", "minLength", 1.0),
			"tag", jref("schemas", "Tag"),
			"secret", jobj("type", "string", "writeOnly", true)),
			"example", jobj("name", "rex")),
		"Pets", jobj("type", "array", "maxItems", 10.0, "items", jref("schemas", "Pet")),
		"Num", jobj("type", "number", "format", "double", "minimum", 0.0, "default", 1.0),
		"Ext", jobj("allOf", []any{jref("schemas", "Pet"), jobj("type", "object", "properties", jobj("extra", jobj("type", "boolean")))},
			"externalDocs", jobj("url", "https://docs.example/ext"), "xml", jobj("name", "ext")),
		"Choice", jobj("oneOf", []any{jref("schemas", "Pet"), jref("schemas", "Tag")}, "not", jobj("type", "integer"),
			"discriminator", jobj("propertyName", "name")),
		"Map", jobj("type", "object", "additionalProperties", jobj("type", "string", "format", "date")),
		"Any", jobj("anyOf", []any{jobj("type", "boolean"), jref("schemas", "Num")}),
		// examples that a date / date-time reading must leave as written (midnight UTC included)
		"Stamp", jobj("type", "string", "format", "date-time", "example", "2024-01-01T00:00:00Z"),
		"Day", jobj("type", "string", "format", "date", "example", "2024-01-01"),
	)
	components := jobj(
		"schemas", schemas,
		"parameters", jobj(
			"limit", jobj("name", "limit", "in", "query", "schema", jobj("type", "integer", "minimum", 1.0, "default", 10.0), "example", 5.0),
			"trace", jobj("name", "X-Trace", "in", "header", "schema", jobj("type", "string")),
			"petId", jobj("name", "petId", "in", "path", "required", true, "schema", jobj("type", "string"),
				"examples", jobj("one", jobj("value", "p1"), "two", jobj("value", "p2", "summary", "second"))),
		),
		"headers", jobj(
			"X-Rate", jobj("schema", jobj("type", "integer"), "description", "rate"),
			"X-Obj", jobj("content", jobj("application/json", jobj("schema", jobj("type", "object", "additionalProperties", jobj("type", "integer"))))),
		),
		"requestBodies", jobj(
			"PetBody", jobj("required", true, "content", jobj("application/json", jobj("schema", jref("schemas", "Pet"),
				"examples", jobj("e1", jref("examples", "E1"), "e2", jobj("value", jobj("name", "tom")))))),
		),
		"responses", jobj(
			"Moved", jobj("description", "moved", "headers", jobj("Location", jobj("schema", jobj("type", "string", "format", "uri"), "required", true)),
				"links", jobj("there", jobj("operationRef", "#/paths/~1pets/get"))),
			"NotFound", jobj("description", "not found", "content", jobj("application/json", jobj("schema",
				jobj("type", "object", "properties", jobj("message", jobj("type", "string"))), "example", jobj("message", "gone"))),
				"headers", jobj("X-Rate", jref("headers", "X-Rate")), "links", jobj("again", jref("links", "L1"))),
		),
		"examples", jobj("E1", jobj("value", jobj("name", "rex"), "summary", "a pet"), "E2", jobj("externalValue", "https://ex.example/e2")),
		"links", jobj("L1", jobj("operationId", "getPet", "server", jobj("url", "https://link.example")),
			"L2", jobj("operationRef", "#/paths/~1pets/get")),
		"callbacks", jobj("CB1", jobj("{$request.body#/url}", jobj("post", jobj("responses", jobj("200", okResp("received")))))),
		"securitySchemes", jobj(
			"key", jobj("type", "apiKey", "in", "header", "name", "X-Key"),
			"bearer", jobj("type", "http", "scheme", "bearer", "bearerFormat", "JWT"),
			"basic", jobj("type", "http", "scheme", "basic"),
			"oauth", jobj("type", "oauth2", "flows", jobj(
				"implicit", jobj("authorizationUrl", "https://auth.example/a", "scopes", jobj("read", "r")),
				"password", jobj("tokenUrl", "https://auth.example/t", "scopes", jobj()),
				"clientCredentials", jobj("tokenUrl", "https://auth.example/t", "refreshUrl", "https://auth.example/r", "scopes", jobj()),
				"authorizationCode", jobj("authorizationUrl", "https://auth.example/a", "tokenUrl", "https://auth.example/t", "scopes", jobj()))),
			"oidc", jobj("type", "openIdConnect", "openIdConnectUrl", "https://auth.example/.well-known"),
		),
	)
	listPets := jobj("operationId", "listPets", "tags", []any{"pets"},
		"parameters", []any{jref("parameters", "limit"),
			jobj("name", "ids", "in", "query", "style", "pipeDelimited", "explode", false, "schema", jobj("type", "array", "items", jobj("type", "integer")))},
		"responses", jobj(
			"200", jobj("description", "ok", "content", jobj("application/json", jobj("schema", jref("schemas", "Pets"), "example", []any{jobj("name", "a")})),
				"headers", jobj("X-Rate", jref("headers", "X-Rate"), "X-Inline", jobj("schema", jobj("type", "string", "maxLength", 5.0), "example", "abc")),
				"links", jobj("next", jref("links", "L1"), "inline", jobj("operationId", "listPets"))),
			"default", jref("responses", "NotFound")),
		"externalDocs", jobj("url", "https://docs.example/list"),
		"servers", []any{jobj("url", "https://ops.example")},
		"security", []any{jobj("key", []any{})},
		"callbacks", jobj("cb", jref("callbacks", "CB1"), "inlinecb", jobj("{$url}", jobj("put", jobj("responses", jobj("204", okResp("done")))))))
	addPet := jobj("operationId", "addPet",
		"requestBody", jref("requestBodies", "PetBody"),
		"responses", jobj("201", jobj("description", "created", "content", jobj("application/json", jobj("schema", jref("schemas", "Pet"),
			"examples", jobj("made", jobj("value", jobj("name", "new", "id", 7.0)), "shared", jref("examples", "E1")))))))
	upload := jobj("operationId", "upload",
		"requestBody", jobj("content", jobj("multipart/form-data", jobj("schema", jobj("type", "object", "properties",
			jobj("file", jobj("type", "string", "format", "binary"), "meta", jref("schemas", "Map"))),
			"encoding", jobj("file", jobj("contentType", "application/octet-stream", "headers", jobj("X-Part", jobj("schema", jobj("type", "string")))),
				"meta", jobj("style", "deepObject", "explode", true))))),
		"responses", jobj("2XX", okResp("stored")))
	getPet := jobj("operationId", "getPet",
		"parameters", []any{jobj("name", "X-Filter", "in", "header", "content", jobj("application/json", jobj("schema", jref("schemas", "Map"))))},
		"responses", jobj("200", jobj("description", "a pet", "content", jobj("application/json", jobj("schema", jref("schemas", "Ext")))),
			"4XX", jref("responses", "NotFound")))
	delPet := jobj("parameters", []any{jobj("name", "petId", "in", "path", "required", true, "style", "label", "explode", true, "schema", jobj("type", "string"))},
		"responses", jobj("204", jobj("description", "deleted", "headers", jobj("X-Rate", jref("headers", "X-Rate"), "X-Gone", jobj("schema", jobj("type", "boolean"))),
			"links", jobj("list", jobj("operationId", "listPets"), "shared", jref("links", "L1"))),
			"default", jref("responses", "Moved")))
	files := jobj("operationId", "getFile",
		"parameters", []any{
			jobj("name", "a", "in", "path", "required", true, "style", "matrix", "schema", jobj("type", "integer")),
			jobj("name", "b", "in", "path", "required", true, "schema", jref("schemas", "Tag")),
			jobj("name", "sid", "in", "cookie", "schema", jobj("type", "string"), "examples", jobj("c1", jobj("value", "s"))),
			jobj("name", "f", "in", "query", "style", "deepObject", "schema", jref("schemas", "Map"))},
		"responses", jobj("200", jobj("description", "file", "content", jobj("application/octet-stream", jobj(), "text/plain", jobj("schema", jobj("type", "string"))))))
	paths := jobj(
		"/pets", jobj("get", listPets, "post", addPet, "parameters", []any{jref("parameters", "trace")},
			"servers", []any{jobj("url", "https://{env}.example/{v}", "variables", jobj("env", jobj("default", "prod", "enum", []any{"prod", "test"}), "v", jobj("default", "v1")))},
			"summary", "pets"),
		"/pets/{petId}", jobj("parameters", []any{jref("parameters", "petId")}, "get", getPet, "delete", delPet),
		"/files/{a}/{b}", jobj("get", files, "put", upload,
			"parameters", []any{jobj("name", "a", "in", "path", "required", true, "schema", jobj("type", "integer")),
				jobj("name", "b", "in", "path", "required", true, "schema", jobj("type", "string"))}),
	)
	doc := jobj("openapi", "3.0.3",
		"info", jobj("title", "pets", "version", "1.0", "contact", jobj("name", "me", "email", "me@example.com"), "license", jobj("name", "MIT")),
		"paths", paths, "components", components,
		"servers", []any{jobj("url", "https://{host}/v1", "variables", jobj("host", jobj("default", "api.example")))},
		"tags", []any{jobj("name", "pets", "externalDocs", jobj("url", "https://docs.example/pets")), jobj("name", "other")},
		"externalDocs", jobj("url", "https://docs.example", "description", "docs"),
		"security", []any{jobj("bearer", []any{}), jobj()})
	// optional sections come and go
	for _, k := range []string{"servers", "tags", "externalDocs", "security"} {
		if r.Chance(25) {
			delete(doc, k)
		}
	}
	if r.Chance(15) {
		delete(doc["info"].(map[string]any), "contact")
	}
	if r.Chance(15) {
		delete(doc["info"].(map[string]any), "license")
	}
	// round-trip through JSON so that every case is plain decoded data
	b, _ := json.Marshal(doc)
	var out map[string]any
	must(json.Unmarshal(b, &out))
	return out
}

// ---- positions ----
type c04Loc struct {
	kind   string
	obj    map[string]any
	path   string // generalised position, e.g. paths.*.get.parameters.*.schema
	isRef  bool
	parent any    // map or list holding obj
	key    string // key / index in parent
}

func c04Locs(doc map[string]any) []c04Loc {
	var out []c04Loc
	var walk func(kind string, v any, path string, parent any, key string)
	walk = func(kind string, v any, path string, parent any, key string) {
		obj, ok := v.(map[string]any)
		if !ok {
			return
		}
		_, isRef := obj["$ref"]
		out = append(out, c04Loc{kind, obj, path, isRef && c04Refable[kind], parent, key})
		if isRef && c04Refable[kind] {
			return
		}
		if elem, isMap := c04MapLike[kind]; isMap {
			for _, k := range sortedKeys(obj) {
				if !strings.HasPrefix(k, "x-") {
					walk(elem, obj[k], path+".*", obj, k)
				}
			}
			return
		}
		for _, k := range sortedKeys(obj) {
			if kind == "PathItem" && containsStr(c04Methods, k) {
				walk("Operation", obj[k], path+".op", obj, k)
				continue
			}
			f, isChild := c04Grammar[kind][k]
			if !isChild {
				continue
			}
			switch f.shape {
			case 0:
				walk(f.kind, obj[k], path+"."+k, obj, k)
			case 1:
				if m, ok := obj[k].(map[string]any); ok {
					for _, mk := range sortedKeys(m) {
						walk(f.kind, m[mk], path+"."+k+".*", m, mk)
					}
				}
			case 2:
				if l, ok := obj[k].([]any); ok {
					for i, e := range l {
						walk(f.kind, e, path+"."+k+".*", l, fmt.Sprint(i))
					}
				}
			}
		}
	}
	walk("Doc", doc, "", nil, "")
	return out
}

func c04Pick(r *Rng, locs []c04Loc, pred func(l *c04Loc) bool) *c04Loc {
	var c []int
	for i := range locs {
		if pred(&locs[i]) {
			c = append(c, i)
		}
	}
	if len(c) == 0 {
		return nil
	}
	return &locs[c[r.Intn(len(c))]]
}

func ofKind(kinds ...string) func(l *c04Loc) bool {
	return func(l *c04Loc) bool { return !l.isRef && containsStr(kinds, l.kind) }
}

func hasKey(m map[string]any, k string) bool { _, ok := m[k]; return ok }

// ---- single-rule violations (and a few benign variations) ----
type c04Mut struct {
	name string
	ok   bool                                                   // the mutated document still conforms
	f    func(r *Rng, doc map[string]any, locs []c04Loc) string // returns the position mutated, "" when not applicable
	pred func(l *c04Loc) bool
	at   func(r *Rng, l *c04Loc)
}

func c04SchemaLoc(r *Rng, locs []c04Loc) *c04Loc { return c04Pick(r, locs, ofKind("Schema")) }

var c04Muts []c04Mut

func init() {
	simple := func(name string, ok bool, pred func(l *c04Loc) bool, f func(r *Rng, l *c04Loc)) {
		c04Muts = append(c04Muts, c04Mut{name, ok, func(r *Rng, doc map[string]any, locs []c04Loc) string {
			l := c04Pick(r, locs, pred)
			if l == nil {
				return ""
			}
			f(r, l)
			return l.kind + "@" + l.path
		}, pred, f})
	}
	del := func(k string) func(r *Rng, l *c04Loc) { return func(r *Rng, l *c04Loc) { delete(l.obj, k) } }
	set := func(kv ...any) func(r *Rng, l *c04Loc) {
		return func(r *Rng, l *c04Loc) {
			for i := 0; i+1 < len(kv); i += 2 {
				l.obj[kv[i].(string)] = kv[i+1]
			}
		}
	}
	notMapLike := func(l *c04Loc) bool {
		_, ml := c04MapLike[l.kind]
		return !l.isRef && !ml && l.kind != "SecurityRequirement"
	}
	withKey := func(kind, key string) func(l *c04Loc) bool {
		return func(l *c04Loc) bool { return !l.isRef && l.kind == kind && hasKey(l.obj, key) }
	}
	typed := func(t string) func(l *c04Loc) bool {
		return func(l *c04Loc) bool { return !l.isRef && l.kind == "Schema" && l.obj["type"] == t }
	}
	// extension / unknown fields, anywhere
	simple("unknown-field", false, notMapLike, set("bogus", 1.0))
	simple("extension-field", true, func(l *c04Loc) bool { return !l.isRef && l.kind != "SecurityRequirement" }, set("x-extra", jobj("a", 1.0)))
	simple("ref-sibling-field", false, func(l *c04Loc) bool { return l.isRef }, set("description", "sibling"))
	simple("ref-sibling-extension", true, func(l *c04Loc) bool { return l.isRef }, set("x-sibling", true))
	// the shortest name that begins with x-
	simple("extension-field-named-x-dash", true, func(l *c04Loc) bool { return !l.isRef && l.kind != "SecurityRequirement" }, set("x-", "shortest"))
	// root, info
	simple("doc-no-openapi", false, ofKind("Doc"), del("openapi"))
	simple("doc-no-info", false, ofKind("Doc"), del("info"))
	simple("doc-no-paths", false, ofKind("Doc"), del("paths"))
	simple("info-no-title", false, ofKind("Info"), del("title"))
	simple("info-no-version", false, ofKind("Info"), set("version", ""))
	simple("license-no-name", false, ofKind("License"), del("name"))
	// components: a malformed name (on a copy, so that references stay intact)
	simple("component-bad-name", false, ofKind("Components"), func(r *Rng, l *c04Loc) {
		sec := Pick(r, sortedKeys(l.obj))
		m, ok := l.obj[sec].(map[string]any)
		if !ok || len(m) == 0 {
			l.obj["schemas"].(map[string]any)["bad name"] = jobj("type", "string")
			return
		}
		m[Pick(r, []string{"bad name", "a/b", "é", "#x"})] = m[Pick(r, sortedKeys(m))]
	})
	// paths
	simple("path-no-slash", false, ofKind("Paths"), func(r *Rng, l *c04Loc) {
		l.obj["nopets"] = jobj("get", jobj("responses", jobj("200", jobj("description", "ok"))))
	})
	simple("path-var-renamed", false, ofKind("Paths"), func(r *Rng, l *c04Loc) {
		l.obj["/pets/{other}"] = l.obj["/pets/{petId}"]
		delete(l.obj, "/pets/{petId}")
	})
	simple("path-var-extra", false, ofKind("Paths"), func(r *Rng, l *c04Loc) {
		l.obj["/pets/{petId}/{more}"] = l.obj["/pets/{petId}"]
		delete(l.obj, "/pets/{petId}")
	})
	simple("path-param-undeclared-in-template", false, ofKind("Paths"), func(r *Rng, l *c04Loc) {
		l.obj["/plain"] = jobj("get", jobj("parameters", []any{jobj("name", "zz", "in", "path", "required", true, "schema", jobj("type", "string"))},
			"responses", jobj("200", jobj("description", "ok"))))
	})
	simple("path-var-undeclared", false, ofKind("Paths"), func(r *Rng, l *c04Loc) {
		l.obj["/t/{x}"] = jobj("get", jobj("responses", jobj("200", jobj("description", "ok"))))
	})
	simple("path-templates-conflict", false, ofKind("Paths"), func(r *Rng, l *c04Loc) {
		mk := func(v string) map[string]any {
			return jobj("get", jobj("parameters", []any{jobj("name", v, "in", "path", "required", true, "schema", jobj("type", "string"))},
				"responses", jobj("200", jobj("description", "ok"))))
		}
		l.obj["/c/{x}"], l.obj["/c/{y}"] = mk("x"), mk("y")
	})
	simple("path-added", true, ofKind("Paths"), func(r *Rng, l *c04Loc) {
		l.obj["/extra/{id}"] = jobj("get", jobj("parameters", []any{jobj("name", "id", "in", "path", "required", true, "schema", jobj("type", "string"))},
			"responses", jobj("200", jobj("description", "ok"))), "x-note", "n")
	})
	simple("operation-id-duplicate", false, withKey("Operation", "operationId"), func(r *Rng, l *c04Loc) {
		if l.obj["operationId"] == "listPets" {
			l.obj["operationId"] = "addPet"
		} else {
			l.obj["operationId"] = "listPets"
		}
	})
	simple("operation-no-responses", false, ofKind("Operation"), del("responses"))
	simple("responses-empty", false, ofKind("Responses"), func(r *Rng, l *c04Loc) {
		for k := range l.obj {
			if !strings.HasPrefix(k, "x-") {
				delete(l.obj, k)
			}
		}
	})
	simple("response-no-description", false, ofKind("Response"), del("description"))
	simple("response-empty-description", true, ofKind("Response"), set("description", ""))
	simple("request-body-no-content", false, ofKind("RequestBody"), del("content"))
	simple("request-body-empty-content", true, ofKind("RequestBody"), set("content", jobj()))
	// parameters
	simple("parameter-duplicate", false, func(l *c04Loc) bool {
		ps, ok := l.obj["parameters"].([]any)
		return !l.isRef && (l.kind == "Operation" || l.kind == "PathItem") && ok && len(ps) > 0
	}, func(r *Rng, l *c04Loc) {
		ps := l.obj["parameters"].([]any)
		l.obj["parameters"] = append(ps, ps[r.Intn(len(ps))])
	})
	simple("parameter-no-name", false, ofKind("Parameter"), set("name", ""))
	simple("parameter-bad-in", false, ofKind("Parameter"), func(r *Rng, l *c04Loc) { l.obj["in"] = Pick(r, []string{"body", "", "Query", "formData"}) })
	simple("parameter-path-not-required", false, func(l *c04Loc) bool { return !l.isRef && l.kind == "Parameter" && l.obj["in"] == "path" },
		func(r *Rng, l *c04Loc) {
			if r.Bool() {
				delete(l.obj, "required")
			} else {
				l.obj["required"] = false
			}
		})
	simple("parameter-style", false, ofKind("Parameter", "Header"), func(r *Rng, l *c04Loc) {
		// any style / explode combination: legal or not is for the model and the specification to say
		l.obj["style"] = Pick(r, []string{"simple", "label", "matrix", "form", "spaceDelimited", "pipeDelimited", "deepObject", "bogus"})
		switch r.Intn(3) {
		case 0:
			l.obj["explode"] = true
		case 1:
			l.obj["explode"] = false
		default:
			delete(l.obj, "explode")
		}
	})
	simple("parameter-schema-and-content", false, withKey("Parameter", "schema"), set("content", jobj("text/plain", jobj("schema", jobj("type", "string")))))
	simple("header-schema-and-content", false, withKey("Header", "schema"), set("content", jobj("text/plain", jobj("schema", jobj("type", "string")))))
	simple("parameter-neither-schema-nor-content", false, ofKind("Parameter", "Header"), func(r *Rng, l *c04Loc) {
		delete(l.obj, "schema")
		delete(l.obj, "content")
		delete(l.obj, "example")
		delete(l.obj, "examples")
	})
	simple("parameter-content-two-entries", false, func(l *c04Loc) bool {
		return !l.isRef && (l.kind == "Parameter" || l.kind == "Header") && hasKey(l.obj, "content")
	}, func(r *Rng, l *c04Loc) {
		l.obj["content"].(map[string]any)["text/plain"] = jobj("schema", jobj("type", "string"))
	})
	simple("header-with-name", false, ofKind("Header"), set("name", "X-Named"))
	simple("header-with-in", false, ofKind("Header"), set("in", "header"))
	// examples
	exHolder := func(l *c04Loc) bool {
		return !l.isRef && (l.kind == "Parameter" || l.kind == "Header" || l.kind == "MediaType") && hasKey(l.obj, "schema")
	}
	simple("example-violates-schema", false, exHolder, func(r *Rng, l *c04Loc) {
		delete(l.obj, "examples")
		l.obj["example"] = jobj("unexpected", []any{1.0, "x", nil}, "name", 5.0)
		l.obj["schema"] = jobj("type", "object", "required", []any{"name"}, "properties", jobj("name", jobj("type", "string")), "additionalProperties", false)
	})
	simple("examples-entry-violates-schema", false, exHolder, func(r *Rng, l *c04Loc) {
		delete(l.obj, "example")
		l.obj["examples"] = jobj("good", jobj("value", "fine"), "bad", jobj("value", 12.5))
		l.obj["schema"] = jobj("type", "string")
	})
	simple("example-and-examples", false, func(l *c04Loc) bool {
		return !l.isRef && (l.kind == "Parameter" || l.kind == "Header" || l.kind == "MediaType")
	}, func(r *Rng, l *c04Loc) {
		l.obj["example"] = "v"
		l.obj["examples"] = jobj("e", jobj("value", "v"))
		if hasKey(l.obj, "schema") {
			l.obj["schema"] = jobj("type", "string")
		}
	})
	simple("examples-external-only", true, exHolder, func(r *Rng, l *c04Loc) {
		delete(l.obj, "example")
		l.obj["examples"] = jobj("ext", jobj("externalValue", "https://ex.example/v"))
	})
	simple("example-readonly-member", true, exHolder, func(r *Rng, l *c04Loc) {
		// conforms or not depending on where it sits: a read-only member in an example is fine in a response, not in a request
		delete(l.obj, "examples")
		l.obj["schema"] = jobj("type", "object", "properties", jobj("id", jobj("type", "integer", "readOnly", true), "pw", jobj("type", "string", "writeOnly", true)))
		l.obj["example"] = Pick(r, []any{jobj("id", 1.0), jobj("pw", "s"), jobj()})
	})
	simple("example-object-both", false, ofKind("Example"), set("value", 1.0, "externalValue", "https://ex.example/x"))
	simple("example-object-neither", false, ofKind("Example"), func(r *Rng, l *c04Loc) {
		delete(l.obj, "value")
		delete(l.obj, "externalValue")
	})
	// schemas
	simple("schema-readonly-and-writeonly", false, ofKind("Schema"), set("readOnly", true, "writeOnly", true))
	simple("schema-unknown-type", false, ofKind("Schema"), func(r *Rng, l *c04Loc) { l.obj["type"] = Pick(r, []string{"null", "file", "Integer", "any"}) })
	simple("schema-array-without-items", false, ofKind("Schema"), func(r *Rng, l *c04Loc) {
		for _, k := range []string{"default", "example", "properties", "required", "enum"} {
			delete(l.obj, k)
		}
		l.obj["type"] = "array"
		delete(l.obj, "items")
	})
	simple("schema-bad-pattern", false, ofKind("Schema"), func(r *Rng, l *c04Loc) {
		for _, k := range []string{"default", "example", "properties", "required", "enum", "items"} {
			delete(l.obj, k)
		}
		l.obj["type"] = "string"
		l.obj["pattern"] = Pick(r, []string{"[", "(?=x)", "a{2,1}", "^(abc$"})
	})
	simple("schema-unknown-format", false, typed("string"), func(r *Rng, l *c04Loc) {
		delete(l.obj, "default")
		delete(l.obj, "example")
		l.obj["format"] = Pick(r, []string{"made-up", "phone", "int32", "float"})
	})
	simple("schema-unknown-number-format", false, func(l *c04Loc) bool { return typed("integer")(l) || typed("number")(l) },
		func(r *Rng, l *c04Loc) {
			l.obj["format"] = Pick(r, []string{"made-up", "int32", "double", "byte", "int64", "float"})
		})
	// formats registered by the application (the harness registers one name in each of the three registries)
	simple("schema-registered-format", true, func(l *c04Loc) bool { return typed("integer")(l) || typed("number")(l) || typed("string")(l) }, func(r *Rng, l *c04Loc) {
		l.obj["format"] = map[string]string{"integer": "x-int", "number": "x-num", "string": "x-str"}[fmt.Sprint(l.obj["type"])]
		delete(l.obj, "example")
		delete(l.obj, "default")
	})
	simple("schema-format-of-another-registry", false, func(l *c04Loc) bool { return typed("integer")(l) || typed("number")(l) || typed("string")(l) }, func(r *Rng, l *c04Loc) {
		l.obj["format"] = map[string]string{"integer": "x-num", "number": "x-int", "string": "x-int"}[fmt.Sprint(l.obj["type"])]
		delete(l.obj, "example")
		delete(l.obj, "default")
	})
	simple("schema-known-format", true, typed("string"), func(r *Rng, l *c04Loc) {
		delete(l.obj, "default")
		delete(l.obj, "example")
		delete(l.obj, "pattern")
		l.obj["format"] = Pick(r, []string{"uuid", "date-time", "email", "binary", "uri"})
	})
	simple("schema-default-violates", false, ofKind("Schema"), func(r *Rng, l *c04Loc) {
		delete(l.obj, "example")
		l.obj["type"] = "integer"
		l.obj["maximum"] = 5.0
		l.obj["default"] = Pick(r, []any{9.0, "x", 1.5})
		for _, k := range []string{"properties", "required", "items", "pattern", "format", "enum", "allOf", "oneOf", "anyOf", "not", "additionalProperties"} {
			delete(l.obj, k)
		}
	})
	simple("schema-example-violates", false, ofKind("Schema"), func(r *Rng, l *c04Loc) {
		delete(l.obj, "default")
		l.obj["type"] = "string"
		l.obj["maxLength"] = 2.0
		l.obj["example"] = Pick(r, []any{"toolong", 3.0, []any{}})
		for _, k := range []string{"properties", "required", "items", "pattern", "format", "enum", "allOf", "oneOf", "anyOf", "not", "additionalProperties"} {
			delete(l.obj, k)
		}
	})
	simple("schema-example-breaks-array-length", false, ofKind("Schema"), func(r *Rng, l *c04Loc) {
		for _, k := range []string{"default", "properties", "required", "pattern", "format", "enum", "allOf", "oneOf", "anyOf", "not", "additionalProperties", "maxLength", "minimum"} {
			delete(l.obj, k)
		}
		l.obj["type"] = "array"
		l.obj["items"] = Pick(r, []any{jobj(), jobj(), jobj("type", "integer")})
		switch r.Intn(3) {
		case 0:
			l.obj["minItems"] = 2.0
			l.obj["example"] = []any{1.0}
		case 1:
			l.obj["maxItems"] = 1.0
			l.obj["example"] = []any{1.0, 2.0}
		default:
			l.obj["uniqueItems"] = true
			l.obj["example"] = []any{1.0, 2.0, 1.0}
		}
	})
	simple("server-variable-written-with-blanks", false, ofKind("Server"), func(r *Rng, l *c04Loc) {
		// the template variable of the URL is " region ", the declared one "region"
		l.obj["url"] = "https://{ region }.example"
		l.obj["variables"] = jobj("region", jobj("default", "eu"))
	})
	simple("server-variable-named-with-blanks", true, ofKind("Server"), func(r *Rng, l *c04Loc) {
		l.obj["url"] = "https://{ region }.example"
		l.obj["variables"] = jobj(" region ", jobj("default", "eu"))
	})
	simple("schema-example-readonly-member", true, ofKind("Schema"), func(r *Rng, l *c04Loc) {
		for _, k := range []string{"default", "required", "items", "pattern", "format", "enum", "allOf", "oneOf", "anyOf", "not", "additionalProperties", "maxLength", "minimum"} {
			delete(l.obj, k)
		}
		l.obj["type"] = "object"
		l.obj["properties"] = jobj("id", jobj("type", "integer", "readOnly", true), "pw", jobj("type", "string", "writeOnly", true))
		l.obj["example"] = Pick(r, []any{jobj("id", 1.0), jobj("pw", "s")})
	})
	simple("schema-external-docs-no-url", false, ofKind("Schema"), set("externalDocs", jobj("description", "no url")))
	// the same violations inside a schema without any constraint (it accepts every value; it is still checked)
	emptied := func(f func(l *c04Loc)) func(r *Rng, l *c04Loc) {
		return func(r *Rng, l *c04Loc) {
			for k := range l.obj {
				delete(l.obj, k)
			}
			f(l)
		}
	}
	simple("empty-schema-unknown-field", false, ofKind("Schema"), emptied(func(l *c04Loc) { l.obj["tpye"] = "string" }))
	simple("empty-schema-external-docs-no-url", false, ofKind("Schema"), emptied(func(l *c04Loc) { l.obj["externalDocs"] = jobj("description", "no url") }))
	simple("empty-schema-extension", true, ofKind("Schema"), emptied(func(l *c04Loc) { l.obj["x-note"] = "fine" }))
	// links, security schemes, flows, servers, tags, external docs
	simple("link-neither", false, ofKind("Link"), func(r *Rng, l *c04Loc) { delete(l.obj, "operationId"); delete(l.obj, "operationRef") })
	simple("link-both", false, ofKind("Link"), set("operationId", "getPet", "operationRef", "#/paths/~1pets/get"))
	simple("scheme-bad-type", false, ofKind("SecurityScheme"), func(r *Rng, l *c04Loc) { l.obj["type"] = Pick(r, []string{"basic", "", "OAuth2"}) })
	simple("scheme-http-bad-scheme", false, func(l *c04Loc) bool { return !l.isRef && l.kind == "SecurityScheme" && l.obj["type"] == "http" },
		func(r *Rng, l *c04Loc) {
			l.obj["scheme"] = Pick(r, []string{"", "Bearer", "hoba"})
			delete(l.obj, "bearerFormat")
		})
	simple("scheme-apikey-bad-in", false, func(l *c04Loc) bool { return !l.isRef && l.kind == "SecurityScheme" && l.obj["type"] == "apiKey" },
		func(r *Rng, l *c04Loc) { l.obj["in"] = Pick(r, []string{"", "path", "body"}) })
	simple("scheme-apikey-no-name", false, func(l *c04Loc) bool { return !l.isRef && l.kind == "SecurityScheme" && l.obj["type"] == "apiKey" }, del("name"))
	simple("scheme-misplaced-member", false, func(l *c04Loc) bool { return !l.isRef && l.kind == "SecurityScheme" && l.obj["type"] != "apiKey" },
		func(r *Rng, l *c04Loc) {
			switch r.Intn(4) {
			case 0:
				l.obj["in"] = "header"
			case 1:
				l.obj["name"] = "n"
			case 2:
				if l.obj["scheme"] == "bearer" {
					l.obj["scheme"] = "basic"
				}
				l.obj["bearerFormat"] = "JWT"
			default:
				if l.obj["type"] == "oauth2" {
					delete(l.obj, "flows")
				} else {
					l.obj["flows"] = jobj("password", jobj("tokenUrl", "https://auth.example/t", "scopes", jobj()))
				}
			}
		})
	simple("scheme-oidc-no-url", false, func(l *c04Loc) bool {
		return !l.isRef && l.kind == "SecurityScheme" && l.obj["type"] == "openIdConnect"
	}, del("openIdConnectUrl"))
	simple("flow-no-scopes", false, ofKind("OAuthFlow"), del("scopes"))
	simple("flow-urls", false, ofKind("OAuthFlow"), func(r *Rng, l *c04Loc) {
		// drop or add a URL: whether that is legal depends on the flow
		k := Pick(r, []string{"authorizationUrl", "tokenUrl"})
		if hasKey(l.obj, k) {
			delete(l.obj, k)
		} else {
			l.obj[k] = "https://auth.example/x"
		}
	})
	simple("flow-bad-url", false, ofKind("OAuthFlow"), func(r *Rng, l *c04Loc) {
		k := Pick(r, []string{"refreshUrl", "authorizationUrl", "tokenUrl"})
		if k == "refreshUrl" || hasKey(l.obj, k) {
			l.obj[k] = Pick(r, []string{"%zz", "://x", "http://[::1"})
		}
	})
	simple("server-no-url", false, ofKind("Server"), func(r *Rng, l *c04Loc) { l.obj["url"] = ""; delete(l.obj, "variables") })
	simple("server-braces", false, ofKind("Server"), func(r *Rng, l *c04Loc) {
		l.obj["url"] = fmt.Sprint(l.obj["url"]) + Pick(r, []string{"{", "}", "/{undeclared}"})
	})
	simple("server-variable-unused", false, ofKind("Server"), func(r *Rng, l *c04Loc) {
		l.obj["url"] = "https://{a}.example"
		l.obj["variables"] = jobj("b", jobj("default", "x"))
	})
	simple("server-variable-no-default", false, ofKind("ServerVariable"), del("default"))
	simple("external-docs-no-url", false, ofKind("ExternalDocs"), del("url"))
	simple("external-docs-bad-url", false, ofKind("ExternalDocs"), func(r *Rng, l *c04Loc) { l.obj["url"] = Pick(r, []string{"%zz", "http://[::1"}) })
	// a reference at a position the library resolves, to an object that exists (used with raw = unresolved)
	c04Muts = append(c04Muts, c04Mut{"reference-left-unresolved", false, func(r *Rng, doc map[string]any, locs []c04Loc) string { return "" }, nil, nil})
}

// swap an inline object for a reference to a component of the same kind (the document stays conforming when resolved)
var c04RefTargets = map[string]string{"Schema": "#/components/schemas/Tag", "Response": "#/components/responses/NotFound",
	"RequestBody": "#/components/requestBodies/PetBody", "Header": "#/components/headers/X-Rate", "Example": "#/components/examples/E1"}

func c04Random(r *Rng) C04Case {
	doc := c04Base(r)
	c := C04Case{Doc: doc}
	// options
	if r.Chance(45) {
		c.Opts = C04Opts{Fmt: r.Chance(25), NoPat: r.Chance(20), NoDef: r.Chance(20), NoEx: r.Chance(25), NoExt: r.Chance(25), Noop: r.Chance(30)}
		if r.Chance(30) {
			c.Opts.Allowed = []string{Pick(r, []string{"bogus", "description", "x-sibling", "x-extra"})}
			if r.Chance(50) {
				// two fields, possibly each in its own option: the options add up
				if second := Pick(r, []string{"bogus", "description", "x-sibling"}); second != c.Opts.Allowed[0] {
					c.Opts.Allowed = append(c.Opts.Allowed, second)
					if r.Bool() {
						c.Opts.Allowed[0], c.Opts.Allowed[1] = c.Opts.Allowed[1], c.Opts.Allowed[0]
					}
				}
				c.Opts.Split = r.Chance(70)
			}
		}
		if r.Chance(35) {
			for k := 1 + r.Intn(3); k > 0; k-- {
				c.Opts.Seq = append(c.Opts.Seq, Pick(r, sortedKeys(c04SeqOpts)))
			}
		}
	}
	apply := func(m *c04Mut) {
		locs := c04Locs(c.Doc)
		if pos := m.f(r, c.Doc, locs); pos != "" {
			c.Muts = append(c.Muts, m.name+" "+pos)
		}
	}
	// benign variations first
	var benign, bad []*c04Mut
	for i := range c04Muts {
		if c04Muts[i].ok {
			benign = append(benign, &c04Muts[i])
		} else {
			bad = append(bad, &c04Muts[i])
		}
	}
	for k := r.Intn(3); k > 0; k-- {
		apply(Pick(r, benign))
	}
	if r.Chance(80) {
		m := Pick(r, bad)
		if m.name == "reference-left-unresolved" {
			// raw mode: strip every reference but one
			c.Raw = true
			c04StripRefs(r, &c)
		} else {
			apply(m)
		}
	}
	return c
}

// raw documents: every reference is replaced by its target except (at most) one, which stays unresolved
func c04StripRefs(r *Rng, c *C04Case) {
	inl, _ := c04Inline(c.Doc, c.Doc, 0).(map[string]any)
	b, _ := json.Marshal(inl)
	var doc map[string]any
	must(json.Unmarshal(b, &doc))
	c.Doc = doc
	if r.Chance(15) {
		c.Muts = append(c.Muts, "raw-without-references")
		return
	}
	locs := c04Locs(doc)
	l := c04Pick(r, locs, func(l *c04Loc) bool {
		_, ok := c04RefTargets[l.kind]
		return ok && l.parent != nil && !strings.HasPrefix(l.path, ".components."+map[string]string{"Schema": "schemas", "Response": "responses", "RequestBody": "requestBodies", "Header": "headers", "Example": "examples"}[l.kind]+".*") || (ok && l.parent != nil && r.Chance(30))
	})
	if l == nil {
		return
	}
	ref := jobj("$ref", c04RefTargets[l.kind])
	switch p := l.parent.(type) {
	case map[string]any:
		p[l.key] = ref
	case []any:
		var i int
		fmt.Sscan(l.key, &i)
		p[i] = ref
	}
	c.Muts = append(c.Muts, "reference-left-unresolved "+l.kind+"@"+l.path)
}

func c04Directed() []C04Case {
	var out []C04Case
	out = append(out, C04Case{Doc: c04Base(NewRng(99))})
	out = append(out, C04Case{Doc: c04Base(NewRng(99)), Opts: C04Opts{Noop: true}})
	out = append(out, C04Case{Doc: c04Base(NewRng(99)), Opts: C04Opts{Fmt: true, NoEx: true}})
	// every rule at every position of its subject kind (one object per generalised position),
	// alternating between no option and an option that changes no setting
	flip := false
	for i := range c04Muts {
		m := &c04Muts[i]
		if m.pred == nil {
			continue
		}
		seen := map[string]bool{}
		locs := c04Locs(c04Base(NewRng(99)))
		for li := range locs {
			if !m.pred(&locs[li]) || seen[locs[li].kind+"@"+locs[li].path] {
				continue
			}
			seen[locs[li].kind+"@"+locs[li].path] = true
			c := C04Case{Doc: c04Base(NewRng(99)), Opts: C04Opts{Noop: flip}}
			flip = !flip
			ls := c04Locs(c.Doc)
			m.at(NewRng(uint64(li)), &ls[li])
			c.Muts = []string{m.name + " " + ls[li].kind + "@" + ls[li].path}
			out = append(out, c)
		}
	}
	// the whole (location, style, explode) table, for parameters and for headers
	for _, in := range []string{"path", "query", "header", "cookie", "hdr"} {
		for _, style := range []string{"", "simple", "label", "matrix", "form", "spaceDelimited", "pipeDelimited", "deepObject"} {
			for _, explode := range []any{nil, true, false} {
				c := C04Case{Doc: c04Base(NewRng(99)), Opts: C04Opts{Noop: flip}}
				flip = !flip
				paths := c.Doc["paths"].(map[string]any)
				set := func(p map[string]any) {
					if style != "" {
						p["style"] = style
					} else {
						delete(p, "style")
					}
					if explode != nil {
						p["explode"] = explode
					} else {
						delete(p, "explode")
					}
				}
				switch in {
				case "path":
					set(paths["/pets/{petId}"].(map[string]any)["delete"].(map[string]any)["parameters"].([]any)[0].(map[string]any))
				case "hdr":
					set(c.Doc["components"].(map[string]any)["headers"].(map[string]any)["X-Rate"].(map[string]any))
				default:
					op := paths["/pets"].(map[string]any)["get"].(map[string]any)
					p := jobj("name", "sm", "in", in, "schema", jobj("type", "object", "additionalProperties", jobj("type", "string")))
					set(p)
					op["parameters"] = append(op["parameters"].([]any), p)
				}
				c.Muts = []string{fmt.Sprintf("style-table %s/%s/%v", in, style, explode)}
				out = append(out, c)
			}
		}
	}
	// every ordered pair of option calls, on documents each rule of which an option can switch off is violated once
	names := sortedKeys(c04SeqOpts)
	for _, a := range names {
		for _, b := range names {
			for _, mutName := range []string{"schema-default-violates", "example-violates-schema", "schema-bad-pattern", "schema-unknown-format", "ref-sibling-extension"} {
				c := C04Case{Doc: c04Base(NewRng(99)), Opts: C04Opts{Seq: []string{a, b}}}
				for i := range c04Muts {
					if c04Muts[i].name == mutName {
						if pos := c04Muts[i].f(NewRng(uint64(len(out))), c.Doc, c04Locs(c.Doc)); pos != "" {
							c.Muts = []string{mutName + " " + pos}
						}
					}
				}
				out = append(out, c)
			}
		}
	}
	// several AllowExtraSiblingFields options in one call add up: each field allowed by its own option, in both orders
	for _, allowed := range [][]string{{"bogus", "description"}, {"description", "bogus"}, {"bogus", "description", "x-sibling"}} {
		for _, split := range []bool{true, false} {
			for _, mutName := range []string{"unknown-field", "ref-sibling-field"} {
				for k := 0; k < 3; k++ {
					c := C04Case{Doc: c04Base(NewRng(99)), Opts: C04Opts{Allowed: allowed, Split: split}}
					for i := range c04Muts {
						if c04Muts[i].name == mutName {
							if pos := c04Muts[i].f(NewRng(uint64(len(out)+k)), c.Doc, c04Locs(c.Doc)); pos != "" {
								c.Muts = []string{mutName + " " + pos}
							}
						}
					}
					out = append(out, c)
				}
			}
		}
	}
	// unresolved references, one per position
	r := NewRng(4)
	for i := 0; i < 40; i++ {
		c := C04Case{Doc: c04Base(r), Raw: true}
		c04StripRefs(r, &c)
		out = append(out, c)
	}
	return out
}

func init() {
	openapi3.DefineIntegerFormatValidator("x-int", openapi3.NewCallbackValidator(func(int64) error { return nil }))
	openapi3.DefineNumberFormatValidator("x-num", openapi3.NewCallbackValidator(func(float64) error { return nil }))
	openapi3.DefineStringFormatValidator("x-str", openapi3.NewCallbackValidator(func(string) error { return nil }))
	runners["C04"] = func(seed uint64, n int, outDir string, replay string) {
		var cases []C04Case
		if replay != "" {
			cases = loadReplayCases[C04Case](replay)
		} else {
			cases = append(loadCorpus[C04Case]("C04"), c04Directed()...)
			r := NewRng(seed)
			for i := 0; i < n; i++ {
				cases = append(cases, c04Random(r))
			}
		}
		meta := &Meta{Property: "C04", Seed: seed, Histogram: map[string]int{}, Shard: 100,
			Rule: "a conforming kitchen-sink document (every object kind at every containment position of the grammar) with optional sections dropped at random, 0-2 benign variations and (80%) one single-rule violation out of the rule inventory applied at a position drawn uniformly among all positions of the rule's subject kind; references resolved by the loader, or left unresolved (Unmarshal only) with exactly one reference in the document; x a random option set (45%); non-trivial = the document loaded; distinct by JSON of the case"}
		seen := map[string]bool{}
		var trees []*DNode
		var verdicts []bool
		var idx []int
		for i := range cases {
			c := &cases[i]
			o := runC04(c)
			// the replay files stay small: the document is kept, the tree is rebuilt on replay
			meta.Cases = append(meta.Cases, map[string]any{"input": c, "go": o})
			if o.Panic != "" {
				meta.GoViolation = append(meta.GoViolation, map[string]any{"signature": "panic", "cases": []any{c}, "go_observation": o, "judgement": "T.Validate panicked"})
				continue
			}
			if o.Load != "" {
				meta.Histogram["not_loaded"]++
				continue
			}
			trees = append(trees, c04Tree(c))
			verdicts = append(verdicts, o.Valid)
			idx = append(idx, i)
			key, _ := json.Marshal(c)
			if !seen[string(key)] {
				seen[string(key)] = true
				meta.Distinct++
			}
			meta.Histogram[fmt.Sprintf("valid=%v", o.Valid)]++
			for _, m := range c.Muts {
				meta.Histogram["mut:"+strings.Split(m, " ")[0]]++
			}
			if c.Opts.has() {
				meta.Histogram["with_options"]++
			}
			if c.Raw {
				meta.Histogram["raw"]++
			}
		}
		meta.NCases = len(cases)
		for k := 0; k*meta.Shard < len(trees) || k == 0; k++ {
			lo, hi := k*meta.Shard, (k+1)*meta.Shard
			if hi > len(trees) {
				hi = len(trees)
			}
			e := &c04Emitter{names: map[string]string{}}
			var terms []string
			for j := lo; j < hi; j++ {
				terms = append(terms, fmt.Sprintf("mkDC %s %s %s", cases[idx[j]].Opts.Coq(), e.emit(trees[j]), coqBool(verdicts[j])))
			}
			var b strings.Builder
			b.WriteString("From KV Require Import Model.Base Model.Json Model.DocValidate Exec.C04Exec.\nOpen Scope string_scope. Open Scope list_scope.\n")
			b.WriteString(strings.Join(e.defs, "\n"))
			b.WriteString("\nDefinition cases : list dcase := [\n" + strings.Join(terms, ";\n") + "\n].\n")
			b.WriteString("Definition R := Eval vm_compute in judge_all judge_C04 cases.\nPrint R.\n")
			fn := fmt.Sprintf("%s/cases_%d.v", outDir, k)
			must(os.WriteFile(fn, []byte(b.String()), 0o644))
			meta.Files = append(meta.Files, fn)
			meta.Offsets = append(meta.Offsets, lo)
			if hi >= len(trees) {
				break
			}
		}
		meta.IndexMap = idx
		if replay == "" {
			c04MultiFile(meta)
			c04DateExamples(meta)
		}
		meta.Histogram["example / default visits on which the two error modes disagree"] = c04ModeSplit
		if replay == "" {
			if sig, detail := c04OptionSequences(); sig != "" {
				meta.GoViolation = append(meta.GoViolation, map[string]any{"signature": sig, "cases": []any{map[string]string{"sequence": detail}}, "go_observation": detail, "judgement": sig + ": " + detail})
			}
			meta.Histogram["option call sequences"]++
		}
		if c04ModeSplit > 0 {
			meta.GoViolation = append(meta.GoViolation, map[string]any{"signature": "example-verdict-depends-on-error-mode", "cases": []any{map[string]int{"visits": c04ModeSplit}},
				"go_observation": fmt.Sprintf("%d (schema, example or default) pairs are accepted in one error mode and rejected in the other", c04ModeSplit),
				"judgement":      "whether a value satisfies a schema does not depend on how the errors are collected"})
		}
		writeMeta(outDir, meta)
		fmt.Fprintf(os.Stderr, "C04: %d cases (%d loaded)\n", len(cases), len(trees))
		_ = sort.Strings
	}
}

// the options a context carries belong to the caller: a Validate call with options of its own leaves them as
// they are, and the verdict of a later call with that context is the one a fresh context with the same options gives
func c04OptionSequences() (sig, detail string) {
	bad := `{"openapi":"3.0.3","info":{"title":"t","version":"1"},"paths":{"/a":{"get":{"responses":{"200":{"description":"ok"}}}}},` +
		`"components":{"schemas":{"D":{"type":"string","maxLength":2,"default":"toolong"},"E":{"type":"string","maxLength":2,"example":"toolong"}}}}`
	good := `{"openapi":"3.0.3","info":{"title":"t","version":"1"},"paths":{},"components":{"schemas":{"S":{"type":"string"}}}}`
	load := func(t string) *openapi3.T {
		d, err := openapi3.NewLoader().LoadFromData([]byte(t))
		if err != nil {
			return nil
		}
		return d
	}
	type optset struct {
		name string
		opt  func() openapi3.ValidationOption
	}
	sets := []optset{{"DisableExamplesValidation", openapi3.DisableExamplesValidation}, {"DisableSchemaDefaultsValidation", openapi3.DisableSchemaDefaultsValidation},
		{"DisableSchemaFormatValidation", openapi3.DisableSchemaFormatValidation}, {"EnableSchemaFormatValidation", openapi3.EnableSchemaFormatValidation}}
	for _, carried := range sets {
		for _, passed := range sets {
			fresh := openapi3.WithValidationOptions(context.Background(), carried.opt())
			want := load(bad).Validate(fresh) == nil
			ctx := openapi3.WithValidationOptions(context.Background(), carried.opt())
			_ = load(good).Validate(ctx, passed.opt())
			_ = load(good).Paths.Validate(ctx, passed.opt())
			d := load(bad)
			got := d.Validate(ctx) == nil
			got2 := d.Components.Validate(ctx) == nil
			if got != want || got2 != want {
				return "validation-options-of-a-context-changed-by-an-earlier-call", fmt.Sprintf("context with %s; after Validate(ctx, %s) on another document, Validate(ctx) of a document with a bad default and a bad example accepts=%v / components accepts=%v, a fresh context with %s accepts=%v",
					carried.name, passed.name, got, got2, carried.name, want)
			}
		}
	}
	return "", ""
}
