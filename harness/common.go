package main

import (
	"encoding/json"
	"fmt"
	"os"
	"path/filepath"
	"sort"
	"strings"
)

// ---- deterministic PRNG (splitmix64): every random choice derives from one state ----
type Rng struct{ s uint64 }

func NewRng(seed uint64) *Rng {
	// scramble the seed so that consecutive seeds give unrelated streams
	z := seed*0xBF58476D1CE4E5B9 + 0x94D049BB133111EB
	z = (z ^ (z >> 31)) * 0xD6E8FEB86659FD93
	z = (z ^ (z >> 29)) * 0x9E3779B97F4A7C15
	return &Rng{s: z ^ (z >> 32)}
}
func (r *Rng) Next() uint64 {
	r.s += 0x9E3779B97F4A7C15
	z := r.s
	z = (z ^ (z >> 30)) * 0xBF58476D1CE4E5B9
	z = (z ^ (z >> 27)) * 0x94D049BB133111EB
	return z ^ (z >> 31)
}
func (r *Rng) Intn(n int) int {
	if n <= 0 {
		return 0
	}
	return int(r.Next() % uint64(n))
}
func (r *Rng) Bool() bool          { return r.Next()&1 == 1 }
func (r *Rng) Chance(p int) bool   { return r.Intn(100) < p }
func Pick[T any](r *Rng, xs []T) T { return xs[r.Intn(len(xs))] }

// ---- Coq term printing ----
func coqStr(s string) string {
	plain := true
	for i := 0; i < len(s); i++ {
		if s[i] < 32 || s[i] > 126 {
			plain = false
			break
		}
	}
	if plain {
		return `"` + strings.ReplaceAll(s, `"`, `""`) + `"`
	}
	var b strings.Builder
	b.WriteString("(bs [")
	for i := 0; i < len(s); i++ {
		if i > 0 {
			b.WriteString(";")
		}
		fmt.Fprintf(&b, "%d", s[i])
	}
	b.WriteString("]%N)")
	return b.String()
}
func coqZ(n int64) string {
	if n < 0 {
		return fmt.Sprintf("(%d)%%Z", n)
	}
	return fmt.Sprintf("%d%%Z", n)
}
func coqN(n uint64) string { return fmt.Sprintf("%d%%N", n) }
func coqBool(b bool) string {
	if b {
		return "true"
	}
	return "false"
}
func coqList(items []string) string { return "[" + strings.Join(items, "; ") + "]" }
func coqOpt(s *string) string {
	if s == nil {
		return "None"
	}
	return "(Some " + *s + ")"
}
func coqStrList(xs []string) string {
	out := make([]string, len(xs))
	for i, x := range xs {
		out[i] = coqStr(x)
	}
	return coqList(out)
}

// ---- case files ----
// writeCases writes shards of at most shard cases each: cases_<k>.v, and returns the file names.
func writeCases(outDir, imports, caseType, judgeFn string, cases []string, shard int) []string {
	files, _ := writeCasesAt(outDir, "cases", imports, caseType, judgeFn, cases, shard, 0)
	return files
}

// writeCasesAt: as writeCases, with a file-name prefix and the index of the first case (for runs
// that mix several case types); returns the files and, per file, the index of its first case.
func writeCasesAt(outDir, prefix, imports, caseType, judgeFn string, cases []string, shard int, base int) ([]string, []int) {
	var files []string
	var offsets []int
	for k := 0; k*shard < len(cases) || (k == 0 && len(cases) == 0); k++ {
		lo, hi := k*shard, (k+1)*shard
		if hi > len(cases) {
			hi = len(cases)
		}
		var b strings.Builder
		b.WriteString(imports + "\n")
		b.WriteString("Open Scope string_scope. Open Scope list_scope.\n")
		fmt.Fprintf(&b, "Definition cases : list %s := [\n", caseType)
		b.WriteString(strings.Join(cases[lo:hi], ";\n"))
		b.WriteString("\n].\n")
		fmt.Fprintf(&b, "Definition R := Eval vm_compute in judge_all %s cases.\nPrint R.\n", judgeFn)
		fn := filepath.Join(outDir, fmt.Sprintf("%s_%d.v", prefix, k))
		must(os.WriteFile(fn, []byte(b.String()), 0o644))
		files = append(files, fn)
		offsets = append(offsets, base+lo)
		if len(cases) == 0 {
			break
		}
	}
	return files, offsets
}

// internStrings replaces every Coq string literal of the terms by a name defined once
// (Coq elaborates a string literal character by character; case terms repeat the same few texts)
func internStrings(terms []string) (string, []string) {
	names := map[string]string{}
	var defs []string
	out := make([]string, len(terms))
	for ti, t := range terms {
		var b strings.Builder
		for i := 0; i < len(t); {
			if t[i] != '"' {
				b.WriteByte(t[i])
				i++
				continue
			}
			j := i + 1
			for j < len(t) {
				if t[j] == '"' {
					if j+1 < len(t) && t[j+1] == '"' {
						j += 2
						continue
					}
					break
				}
				j++
			}
			lit := t[i : j+1]
			if len(lit) <= 4 {
				b.WriteString(lit)
			} else {
				name, ok := names[lit]
				if !ok {
					name = fmt.Sprintf("s_%d", len(names))
					names[lit] = name
					defs = append(defs, fmt.Sprintf("Definition %s : string := %s.", name, lit))
				}
				b.WriteString(name)
			}
			i = j + 1
		}
		out[ti] = b.String()
	}
	return strings.Join(defs, "\n"), out
}

// writeCasesInterned: as writeCasesAt, with the string literals of each shard interned
func writeCasesInterned(outDir, prefix, imports, caseType, judgeFn string, cases []string, shard int) ([]string, []int) {
	var files []string
	var offsets []int
	for k := 0; k*shard < len(cases) || (k == 0 && len(cases) == 0); k++ {
		lo, hi := k*shard, (k+1)*shard
		if hi > len(cases) {
			hi = len(cases)
		}
		defs, terms := internStrings(cases[lo:hi])
		var b strings.Builder
		b.WriteString(imports + "\n")
		b.WriteString("Open Scope string_scope. Open Scope list_scope.\n")
		b.WriteString(defs + "\n")
		fmt.Fprintf(&b, "Definition cases : list %s := [\n", caseType)
		b.WriteString(strings.Join(terms, ";\n"))
		b.WriteString("\n].\n")
		fmt.Fprintf(&b, "Definition R := Eval vm_compute in judge_all %s cases.\nPrint R.\n", judgeFn)
		fn := filepath.Join(outDir, fmt.Sprintf("%s_%d.v", prefix, k))
		must(os.WriteFile(fn, []byte(b.String()), 0o644))
		files = append(files, fn)
		offsets = append(offsets, lo)
		if len(cases) == 0 {
			break
		}
	}
	return files, offsets
}

type Meta struct {
	Property    string           `json:"property"`
	Seed        uint64           `json:"seed"`
	Shard       int              `json:"shard"`
	Files       []string         `json:"files"`
	Offsets     []int            `json:"offsets,omitempty"`   // index of the first case of each file (default k*shard)
	IndexMap    []int            `json:"index_map,omitempty"` // judged-case number -> index into Cases (when only some cases go to Coq)
	NCases      int              `json:"n_cases"`
	Distinct    int              `json:"distinct_nontrivial"`
	Rule        string           `json:"rule"`
	Histogram   map[string]int   `json:"histogram"`
	Cases       []any            `json:"cases"`                   // JSON description per case (for replay files and samples)
	GoViolation []map[string]any `json:"go_violations,omitempty"` // violations decided on the Go side alone (panics, direct oracles)
	CaseKeys    []string         `json:"case_keys,omitempty"`     // content keys of the judged cases (properties whose findings are recorded per input)
}

func writeMeta(outDir string, m *Meta) {
	b, err := json.Marshal(m)
	must(err)
	must(os.WriteFile(filepath.Join(outDir, "meta.json"), b, 0o644))
}

func must(err error) {
	if err != nil {
		panic(err)
	}
}

func catchPanic(f func()) (p any) {
	defer func() {
		if r := recover(); r != nil {
			p = r
		}
	}()
	f()
	return nil
}

// replay / corpus files: {"property":..., "cases":[<input>...], ...}
func loadReplayCases[T any](path string) []T {
	b, err := os.ReadFile(path)
	must(err)
	var f struct {
		Cases []T `json:"cases"`
	}
	must(json.Unmarshal(b, &f))
	return f.Cases
}

// the committed regression corpus /verif/replays/<id>_*.json runs before any generated case
func loadCorpus[T any](prop string) []T {
	dir := os.Getenv("VERIF_REPLAYS")
	if dir == "" {
		return nil
	}
	files, _ := filepath.Glob(filepath.Join(dir, prop+"_*.json"))
	var out []T
	for _, f := range files {
		out = append(out, loadReplayCases[T](f)...)
	}
	return out
}

func sortStrings(xs []string) { sort.Strings(xs) }
