package main

import (
	"context"
	"fmt"
	"net/http"
	"net/url"
	"strings"

	"github.com/getkin/kin-openapi/openapi3"
	"github.com/getkin/kin-openapi/routers"
	"github.com/getkin/kin-openapi/routers/gorillamux"
	"github.com/getkin/kin-openapi/routers/legacy"
)

// Server matching on its own: Server.MatchRawURL, Server.ParameterNames and Servers.MatchURL of the
// real code on (declared server URLs, request URL); judged in Coq against Model/Server.v and
// Spec/ServerSpec.v (Exec/C09SrvExec.v).
type C09SrvCase struct {
	Patterns []string `json:"patterns"`
	URL      string   `json:"url"` // the request URL as written (may carry a query)
}
type C09SrvMatch struct {
	OK     bool     `json:"ok"`
	Params []string `json:"params,omitempty"`
	Rest   string   `json:"rest,omitempty"`
}
type C09SrvObs struct {
	Text    string        `json:"text"` // what MatchRawURL is given: the URL as net/url prints it, without the query
	Full    string        `json:"full"` // parsedURL.String()
	Matches []C09SrvMatch `json:"matches"`
	Names   [][]string    `json:"names"`
	NameErr []bool        `json:"name_errors"`
	Index   int           `json:"index"` // Servers.MatchURL: index of the returned server, -1 none
	Params  []string      `json:"params,omitempty"`
	Rest    string        `json:"rest,omitempty"`
	Panic   string        `json:"panic,omitempty"`
	Skip    string        `json:"skip,omitempty"`
}

func runC09Srv(c *C09SrvCase) C09SrvObs {
	var o C09SrvObs
	u, err := url.Parse(c.URL)
	if err != nil {
		o.Skip = "unparsable URL: " + err.Error()
		return o
	}
	o.Full = u.String()
	o.Text = o.Full
	if i := strings.IndexByte(o.Text, '?'); i >= 0 {
		o.Text = o.Text[:i]
	}
	var servers openapi3.Servers
	for _, p := range c.Patterns {
		servers = append(servers, &openapi3.Server{URL: p})
	}
	if p := catchPanic(func() {
		for _, sv := range servers {
			ps, rest, ok := sv.MatchRawURL(o.Text)
			o.Matches = append(o.Matches, C09SrvMatch{ok, ps, rest})
			names, err := sv.ParameterNames()
			o.Names = append(o.Names, names)
			o.NameErr = append(o.NameErr, err != nil)
		}
		o.Index = -1
		sv, ps, rest := servers.MatchURL(u)
		for i := range servers {
			if servers[i] == sv {
				o.Index = i
			}
		}
		o.Params, o.Rest = ps, rest
	}); p != nil {
		o.Panic = fmt.Sprint(p)
	}
	return o
}

func c09SrvCoq(c *C09SrvCase, o *C09SrvObs) string {
	var ms, ns []string
	for i, m := range o.Matches {
		ms = append(ms, fmt.Sprintf("(%s, (%s, %s))", coqBool(m.OK), coqStrList(m.Params), coqStr(m.Rest)))
		if o.NameErr[i] {
			ns = append(ns, "None")
		} else {
			ns = append(ns, "(Some "+coqStrList(o.Names[i])+")")
		}
	}
	idx := "None"
	if o.Index >= 0 {
		idx = fmt.Sprintf("(Some (%d, (%s, %s)))", o.Index, coqStrList(o.Params), coqStr(o.Rest))
	}
	return fmt.Sprintf("mkC09S %s %s %s %s %s %s", coqStrList(c.Patterns), coqStr(o.Text), coqList(ms), coqList(ns), coqStr(o.Full), idx)
}

var c09SrvPatterns = []string{
	"/", "/base", "/api/v1/", "https://api.example.com", "https://api.example.com/", "https://api.example.com/v1", "http://example.com:8080/x",
	"https://{tenant}.example.com/base", "https://api.example.com/{version}/store", "https://api.example.com/s/{region}", "{scheme}://api.example.com/s",
	"http://example.com:{port}/p", "https://example.com/my%20api", "https://{a}-{b}.example.com", "http://{x}-api.example.com", "/{base}/x", "/{base}/", "/{ base }/v{n}",
	"https://example.com/{a}{b}", "https://example.com/{unclosed", "/pre{v}post", "{all}", "", "//host/p", "/{x}/{y}/{z}",
}
var c09SrvVals = []string{"acme", "v1", "eu", "https", "8443", "a-b", "x.y", "", "a/b", "é", "a%20b", "1"}
var c09SrvRests = []string{"", "/", "/pets", "/pets/7", "//a", "/pets?x=1", "?x=1", "?", "x", "/a?b=/c", "/é"}

func c09SrvRandom(r *Rng) C09SrvCase {
	var c C09SrvCase
	n := 1 + r.Intn(3)
	for i := 0; i < n; i++ {
		c.Patterns = append(c.Patterns, Pick(r, c09SrvPatterns))
	}
	// the URL: one of the patterns filled with values, then a remainder
	p := Pick(r, c.Patterns)
	filled := varRe.ReplaceAllStringFunc(p, func(string) string { return Pick(r, c09SrvVals) })
	if r.Chance(50) {
		filled = strings.TrimSuffix(filled, "/")
	}
	switch r.Intn(10) {
	case 0:
		if len(filled) > 1 {
			filled = filled[:len(filled)-1] // one character short of the pattern
		}
	case 1:
		filled += "x"
	case 2:
		filled = strings.Replace(filled, "example.com", "example.org", 1)
	}
	c.URL = filled + Pick(r, c09SrvRests)
	return c
}

func c09SrvDirected() []C09SrvCase {
	var out []C09SrvCase
	add := func(pats []string, urls ...string) {
		for _, u := range urls {
			out = append(out, C09SrvCase{Patterns: pats, URL: u})
		}
	}
	add([]string{"https://api.example.com/v1"}, "https://api.example.com/v1/pets", "https://api.example.com/v1", "https://api.example.com/v1/", "https://api.example.com/v1x", "https://api.example.com/v1/pets?", "https://api.example.com/v1?x=1", "https://api.example.com/v2/pets")
	add([]string{"https://api.example.com/v1/"}, "https://api.example.com/v1/pets", "https://api.example.com/v1", "https://api.example.com/v1/")
	add([]string{"http://{x}-api.example.com"}, "http://a-api.example.com/pets", "http://a-b-api.example.com/pets", "http://-api.example.com/pets")
	add([]string{"https://{a}-{b}.example.com"}, "https://x-y.example.com/p", "https://x-y-z.example.com/p")
	add([]string{"https://example.com/{a}{b}"}, "https://example.com/xy/z", "https://example.com/xy")
	add([]string{"/", "/base"}, "/base/pets", "/", "", "/x")
	add([]string{"/base", "/"}, "/base/pets", "/basex", "/x")
	add([]string{"/{base}/x", "/{ base }/v{n}"}, "/a/x/pets", "/a/v2/pets", "/a/v/pets", "//x/pets")
	add([]string{"https://example.com/{unclosed"}, "https://example.com/a")
	add([]string{"{all}"}, "anything", "/x", "a/b")
	add([]string{"https://example.com/my%20api"}, "https://example.com/my%20api/p", "https://example.com/my api/p")
	return out
}

// Servers declared on a path item replace the document's servers for that path and for no other
// (Go side): a template is routed under its own server list only.
func c09PathServers(meta *Meta) {
	type obs struct {
		kind int
		tpl  string
	}
	find := func(r routers.Router, method, target string) obs {
		u, err := url.Parse(target)
		if err != nil {
			return obs{4, ""}
		}
		req := &http.Request{Method: method, URL: u, Header: http.Header{}, Host: u.Host}
		var route *routers.Route
		var ferr error
		if p := catchPanic(func() { route, _, ferr = r.FindRoute(req) }); p != nil {
			return obs{3, fmt.Sprint(p)}
		}
		if ferr != nil {
			return obs{1, ""}
		}
		if route == nil {
			return obs{4, "nil route without error"}
		}
		return obs{0, route.Path}
	}
	docServers := []string{"https://api.example.com/v1", "/base"}
	pathServers := []string{"https://other.example.com/x", "/special"}
	for si := range docServers {
		for _, own := range []string{"/zeta", "/omega", "/alpha", "/items/{id}"} {
			doc := &openapi3.T{OpenAPI: "3.0.0", Info: &openapi3.Info{Title: "t", Version: "1"}, Paths: openapi3.NewPaths(), Servers: openapi3.Servers{{URL: docServers[si]}}}
			templates := []string{"/zeta", "/omega", "/alpha", "/items/{id}"}
			for _, t := range templates {
				op := openapi3.NewOperation()
				desc := "ok"
				op.Responses = openapi3.NewResponses()
				op.Responses.Set("200", &openapi3.ResponseRef{Value: &openapi3.Response{Description: &desc}})
				item := &openapi3.PathItem{Get: op}
				if strings.Contains(t, "{id}") {
					item.Parameters = openapi3.Parameters{{Value: &openapi3.Parameter{Name: "id", In: "path", Required: true, Schema: openapi3.NewStringSchema().NewRef()}}}
				}
				if t == own {
					item.Servers = openapi3.Servers{{URL: pathServers[si]}}
				}
				doc.Paths.Set(t, item)
			}
			if doc.Validate(context.Background()) != nil {
				continue
			}
			gr, err1 := gorillamux.NewRouter(doc)
			lr, err2 := legacy.NewRouter(doc)
			if err1 != nil || err2 != nil {
				continue
			}
			for _, t := range templates {
				path := strings.ReplaceAll(t, "{id}", "7")
				for _, under := range []string{"document", "path-item"} {
					base := docServers[si]
					if under == "path-item" {
						base = pathServers[si]
					}
					// the template answers under its own list if it has one, under the document's otherwise
					want := (t == own) == (under == "path-item")
					desc := map[string]any{"document_server": docServers[si], "path_item_server": pathServers[si], "declared_on": own, "request": "GET " + base + path}
					meta.Histogram["path-item server cases"]++
					for name, r := range map[string]routers.Router{"gorilla": gr, "legacy": lr} {
						o := find(r, "GET", base+path)
						got := o.kind == 0 && o.tpl == t
						if o.kind >= 3 {
							meta.GoViolation = append(meta.GoViolation, map[string]any{"signature": "path-servers:" + name + ":panic-or-nil-route", "cases": []any{desc}, "go_observation": o.tpl, "judgement": name + ": " + o.tpl})
						} else if got != want {
							sig := "path-servers:" + name + ":template-routed-under-a-server-list-that-is-not-its-own"
							if want {
								sig = "path-servers:" + name + ":template-not-routed-under-its-own-server-list"
							}
							meta.GoViolation = append(meta.GoViolation, map[string]any{"signature": sig, "cases": []any{desc}, "go_observation": fmt.Sprintf("routed=%v (template %q)", o.kind == 0, o.tpl),
								"judgement": fmt.Sprintf("%s router: %s %s: routed to %q, expected routed=%v", name, "GET", base+path, o.tpl, want)})
						}
					}
				}
			}
		}
	}
}
