package main

// C03, documents made of several files (Go side): a document loaded with external references
// allowed serialises to the JSON it was read from - every reference keeps its text, whole-file and
// fragment references alike, and nothing of the referenced file is copied into the output.

import (
	"encoding/json"
	"fmt"
	"net/url"
	"sort"
	"strings"

	"github.com/getkin/kin-openapi/openapi3"
)

func c03MultiFile(meta *Meta) {
	viol := func(sig string, c any, detail string) {
		meta.Histogram["oracle:"+sig]++
		meta.GoViolation = append(meta.GoViolation, map[string]any{"signature": sig, "cases": []any{c}, "go_observation": detail, "judgement": sig + ": " + detail})
	}
	media := func(inner string) string { return `{"application/json":{"schema":` + inner + `}}` }
	leaf := `{"type":"string","description":"leaf","x-leaf":true}`
	lib := `{"openapi":"3.0.3","info":{"title":"lib","version":"1"},"paths":{"/p":{"summary":"lib path","x-lp":1,"get":{"responses":{"200":{"description":"ok"}}}}},` +
		`"components":{"schemas":{"X":` + leaf + `},"parameters":{"P":{"name":"p","in":"query","schema":{"type":"string"}}},"headers":{"H":{"schema":{"type":"string"}}},` +
		`"requestBodies":{"B":{"content":` + media(`{"type":"string"}`) + `}},"responses":{"R":{"description":"lib"}},"examples":{"E":{"value":1}},` +
		`"links":{"L":{"operationId":"o"}},"securitySchemes":{"S":{"type":"http","scheme":"basic"}},"callbacks":{"C":{"{$request.body#/u}":{"post":{"responses":{"200":{"description":"ok"}}}}}}}}`
	elements := map[string]string{
		"schema": leaf, "parameter": `{"name":"p","in":"query","schema":{"type":"string"},"x-el":1}`, "header": `{"schema":{"type":"string"},"x-el":1}`,
		"requestBody": `{"content":` + media(`{"type":"string"}`) + `,"x-el":1}`, "response": `{"description":"el","x-el":1}`, "example": `{"value":1,"x-el":1}`,
		"link": `{"operationId":"o","x-el":1}`, "securityScheme": `{"type":"http","scheme":"basic","x-el":1}`,
		"callback":  `{"{$request.body#/u}":{"post":{"responses":{"200":{"description":"ok"}}}}}`,
		"path-item": `{"summary":"el path","x-el":1,"get":{"responses":{"200":{"description":"ok"}}}}`,
	}
	positions := []struct{ kind, comp, fragment string }{
		{"schema", "schemas", "X"}, {"parameter", "parameters", "P"}, {"header", "headers", "H"}, {"requestBody", "requestBodies", "B"}, {"response", "responses", "R"},
		{"example", "examples", "E"}, {"link", "links", "L"}, {"securityScheme", "securitySchemes", "S"}, {"callback", "callbacks", "C"},
	}
	kinds := make([]string, 0, len(elements))
	for k := range elements {
		kinds = append(kinds, k)
	}
	sort.Strings(kinds)
	for _, whole := range []bool{true, false} {
		for _, kind := range kinds {
			var root, refText string
			if kind == "path-item" {
				refText = "sub/el.json"
				if !whole {
					refText = "lib.json#/paths/~1p"
				}
				root = `{"openapi":"3.0.3","info":{"title":"r","version":"1"},"paths":{"/s":{"$ref":"` + refText + `"}}}`
			} else {
				var pos struct{ kind, comp, fragment string }
				for _, p := range positions {
					if p.kind == kind {
						pos = p
					}
				}
				refText = "sub/el.json"
				if !whole {
					refText = "lib.json#/components/" + pos.comp + "/" + pos.fragment
				}
				root = `{"openapi":"3.0.3","info":{"title":"r","version":"1"},"paths":{},"components":{"` + pos.comp + `":{"Mine":{"$ref":"` + refText + `"}}}}`
			}
			store := map[string]string{"/api/root.json": root, "/api/sub/el.json": elements[kind], "/api/lib.json": lib}
			loader := openapi3.NewLoader()
			loader.IsExternalRefsAllowed = true
			loader.ReadFromURIFunc = func(_ *openapi3.Loader, u *url.URL) ([]byte, error) {
				if d, ok := store[u.Path]; ok {
					return []byte(d), nil
				}
				return nil, fmt.Errorf("not found: %s", u)
			}
			desc := map[string]any{"kind": kind, "reference": refText, "root": root}
			meta.Histogram["multi-file documents"]++
			var out []byte
			var err error
			if p := catchPanic(func() {
				var doc *openapi3.T
				if doc, err = loader.LoadFromURI(&url.URL{Path: "/api/root.json"}); err == nil {
					out, err = doc.MarshalJSON()
				}
			}); p != nil {
				viol("multi-file:panic", desc, fmt.Sprint(p))
				continue
			}
			if err != nil {
				// a reference kind the loader does not follow across files is not a serialisation matter
				meta.Histogram["multi-file documents not loaded"]++
				continue
			}
			var a, b any
			json.Unmarshal([]byte(root), &a)
			json.Unmarshal(out, &b)
			var lost, invented, changed []string
			c03Diff("", a, b, &lost, &invented, &changed)
			if len(lost)+len(invented)+len(changed) > 0 {
				what := "fragment"
				if whole {
					what = "whole-file"
				}
				viol("multi-file:serialised-root-differs:"+what+":"+kind, desc, fmt.Sprintf("lost %s; invented %s; changed %s; output %s", strings.Join(lost, ","), strings.Join(invented, ","), strings.Join(changed, ","), string(out)))
			}
		}
	}
}
