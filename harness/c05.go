package main

import (
	"context"
	"encoding/json"
	"errors"
	"fmt"
	"net/http"
	"net/http/httptest"
	"net/url"
	"os"
	"sort"
	"strconv"
	"strings"

	"github.com/getkin/kin-openapi/openapi3"
	"github.com/getkin/kin-openapi/openapi3filter"
	"github.com/getkin/kin-openapi/routers"
)

type SVal struct {
	Kind string      `json:"kind"` // prim | arr | obj
	T    string      `json:"t,omitempty"`
	Ts   []string    `json:"ts,omitempty"`
	KVs  [][2]string `json:"kvs,omitempty"`
}

type KVs struct {
	K  string   `json:"k"`
	Vs []string `json:"vs"`
}

type C05Frag struct {
	Path   map[string]string `json:"path,omitempty"`
	Query  []KVs             `json:"query,omitempty"`
	Header []KVs             `json:"header,omitempty"`
	Cookie [][2]string       `json:"cookie,omitempty"`
}

type C05Case struct {
	In         string   `json:"in"`
	Name       string   `json:"name"`
	Style      string   `json:"style"`
	Explode    *bool    `json:"explode"`
	Required   bool     `json:"required"`
	AllowEmpty bool     `json:"allow_empty"`
	Schema     *GSchema `json:"schema"`
	SVal       *SVal    `json:"sval"` // nil: malformed stream
	Frag       C05Frag  `json:"frag"`
	Multi      bool     `json:"multi"`
	// a deepObject query judged against Model/DeepObject.v (harness/c05deepcoq.go); the fields above are then unused
	Deep *C05DeepQ `json:"deep_object,omitempty"`

	viaForm bool // harness/c05transport.go
	noise   bool // harness/c05transport.go: the query also carries a key of no parameter
	written bool // harness/c05transport.go: the parameter definition is written out and read back before use
}

type C05Obs struct {
	Value     any    `json:"-"`
	ValueText string `json:"value"`
	Types     string `json:"go_types"`
	Found     bool   `json:"found"`
	Err       int    `json:"err"`
	ErrS      string `json:"err_text,omitempty"`
	Valid     int    `json:"valid"`
	VErrS     string `json:"valid_err,omitempty"`
}

func (c *C05Case) effStyle() string {
	if c.Style != "" {
		return c.Style
	}
	if c.In == "path" || c.In == "header" {
		return "simple"
	}
	return "form"
}
func (c *C05Case) effExplode() bool {
	if c.Explode != nil {
		return *c.Explode
	}
	// OpenAPI 3.0.3: "When style is form, the default value is true. For all other styles, the default value is false."
	// (deepObject is only defined exploded)
	if c.In == "query" || c.In == "cookie" {
		st := c.effStyle()
		return st == "form" || st == "deepObject"
	}
	return false
}

// serialise per the OpenAPI 3.0.3 style table (harness-side implementation; cross-checked against Spec/ParamSpec.ser)
func (c *C05Case) serialise(v *SVal) C05Frag {
	st, ex, n := c.effStyle(), c.effExplode(), c.Name
	flat := func() []string {
		var out []string
		for _, kv := range v.KVs {
			out = append(out, kv[0], kv[1])
		}
		return out
	}
	eqs := func() []string {
		var out []string
		for _, kv := range v.KVs {
			out = append(out, kv[0]+"="+kv[1])
		}
		return out
	}
	text := ""
	switch c.In {
	case "path":
		switch v.Kind {
		case "prim":
			switch st {
			case "label":
				text = "." + v.T
			case "matrix":
				text = ";" + n + "=" + v.T
			default:
				text = v.T
			}
		case "arr":
			switch st {
			case "label":
				d := ","
				if ex {
					d = "."
				}
				text = "." + strings.Join(v.Ts, d)
			case "matrix":
				if ex {
					for _, t := range v.Ts {
						text += ";" + n + "=" + t
					}
				} else {
					text = ";" + n + "=" + strings.Join(v.Ts, ",")
				}
			default:
				text = strings.Join(v.Ts, ",")
			}
		case "obj":
			switch st {
			case "label":
				if ex {
					text = "." + strings.Join(eqs(), ".")
				} else {
					text = "." + strings.Join(flat(), ",")
				}
			case "matrix":
				if ex {
					for _, e := range eqs() {
						text += ";" + e
					}
				} else {
					text = ";" + n + "=" + strings.Join(flat(), ",")
				}
			default:
				if ex {
					text = strings.Join(eqs(), ",")
				} else {
					text = strings.Join(flat(), ",")
				}
			}
		}
		return C05Frag{Path: map[string]string{n: text}}
	case "header", "cookie":
		switch v.Kind {
		case "prim":
			text = v.T
		case "arr":
			text = strings.Join(v.Ts, ",")
		case "obj":
			if c.In == "header" && ex {
				text = strings.Join(eqs(), ",")
			} else {
				text = strings.Join(flat(), ",")
			}
		}
		if c.In == "header" {
			return C05Frag{Header: []KVs{{n, []string{text}}}}
		}
		return C05Frag{Cookie: [][2]string{{n, text}}}
	default: // query
		switch v.Kind {
		case "prim":
			return C05Frag{Query: []KVs{{n, []string{v.T}}}}
		case "arr":
			if ex {
				return C05Frag{Query: []KVs{{n, append([]string{}, v.Ts...)}}}
			}
			d := ","
			if st == "spaceDelimited" {
				d = " "
			} else if st == "pipeDelimited" {
				d = "|"
			}
			return C05Frag{Query: []KVs{{n, []string{strings.Join(v.Ts, d)}}}}
		default:
			if ex {
				var q []KVs
				for _, kv := range v.KVs {
					q = append(q, KVs{kv[0], []string{kv[1]}})
				}
				return C05Frag{Query: q}
			}
			return C05Frag{Query: []KVs{{n, []string{strings.Join(flat(), ",")}}}}
		}
	}
}

func (c *C05Case) param() *openapi3.Parameter {
	p := &openapi3.Parameter{Name: c.Name, In: c.In, Style: c.Style, Explode: c.Explode, Required: c.Required, AllowEmptyValue: c.AllowEmpty}
	p.Schema = c.Schema.ToOpenAPI().NewRef()
	return p
}

func (c *C05Case) request() (*http.Request, map[string]string) {
	req := httptest.NewRequest("GET", "/p", nil)
	q := url.Values{}
	for _, kv := range c.Frag.Query {
		for _, v := range kv.Vs {
			q.Add(kv.K, v)
		}
		if len(kv.Vs) == 0 {
			q[kv.K] = []string{}
		}
	}
	if c.noise {
		q.Add("zzother", "1")
	}
	req.URL.RawQuery = q.Encode()
	for _, kv := range c.Frag.Header {
		for _, v := range kv.Vs {
			req.Header.Add(kv.K, v)
		}
	}
	for _, kv := range c.Frag.Cookie {
		// set the Cookie header directly so that the value is carried verbatim
		if old := req.Header.Get("Cookie"); old != "" {
			req.Header.Set("Cookie", old+"; "+kv[0]+"="+kv[1])
		} else {
			req.Header.Set("Cookie", kv[0]+"="+kv[1])
		}
	}
	return req, c.Frag.Path
}

func goTypes(v any) string {
	switch x := v.(type) {
	case []any:
		if len(x) > 0 {
			return "[]" + goTypes(x[0])
		}
		return "[]"
	case map[string]any:
		return "map"
	}
	return fmt.Sprintf("%T", v)
}

func runC05(c *C05Case) C05Obs {
	var o C05Obs
	p := c.param()
	if c.written {
		if b, err := p.MarshalJSON(); err == nil {
			p2 := &openapi3.Parameter{}
			if p2.UnmarshalJSON(b) == nil {
				p = p2
			}
		}
	}
	op := openapi3.NewOperation()
	op.Parameters = openapi3.Parameters{&openapi3.ParameterRef{Value: p}}
	item := &openapi3.PathItem{Get: op}
	doc := &openapi3.T{OpenAPI: "3.0.0", Info: &openapi3.Info{Title: "t", Version: "1"}, Paths: openapi3.NewPaths()}
	route := &routers.Route{Spec: doc, Path: "/p", PathItem: item, Method: "GET", Operation: op}
	mk := func() *openapi3filter.RequestValidationInput {
		req, pp := c.request()
		if c.viaForm {
			req, pp = c.parsedFormRequest()
		}
		return &openapi3filter.RequestValidationInput{Request: req, PathParams: pp, Route: route,
			Options: &openapi3filter.Options{MultiError: c.Multi, SkipSettingDefaults: true}}
	}
	var val any
	var err error
	if pn := catchPanic(func() { val, o.Found, err = openapi3filter.VerifDecodeStyledParameter(p, mk()) }); pn != nil {
		o.Err, o.ErrS = 3, fmt.Sprint(pn)
	} else if err != nil {
		catchPanic(func() { o.ErrS = err.Error() })
		var pe *openapi3filter.ParseError
		if errors.As(err, &pe) {
			o.Err = 1
		} else {
			o.Err = 2
		}
	}
	o.Value, o.Types = val, goTypes(val)
	o.ValueText = fmt.Sprintf("%#v", val)
	var verr error
	if pn := catchPanic(func() { verr = openapi3filter.ValidateParameter(context.Background(), mk(), p) }); pn != nil {
		o.Valid, o.VErrS = 6, fmt.Sprint(pn)
	} else if verr != nil {
		if pn := catchPanic(func() { o.VErrS = verr.Error() }); pn != nil {
			o.VErrS = "PANIC in Error(): " + fmt.Sprint(pn)
		}
		var re *openapi3filter.RequestError
		var pe *openapi3filter.ParseError
		var se *openapi3.SchemaError
		switch {
		case errors.Is(verr, openapi3filter.ErrInvalidRequired):
			o.Valid = 1
		case errors.Is(verr, openapi3filter.ErrInvalidEmptyValue):
			o.Valid = 2
		case errors.As(verr, &pe):
			o.Valid = 3
		case errors.As(verr, &se):
			o.Valid = 5
		case errors.As(verr, &re):
			if _, ok := re.Err.(openapi3.MultiError); ok {
				o.Valid = 5
			} else if re.Err != nil && (errors.Is(re.Err, openapi3.ErrSchemaInputNaN) || errors.Is(re.Err, openapi3.ErrSchemaInputInf)) {
				o.Valid = 5
			} else {
				o.Valid = 4
			}
		default:
			o.Valid = 4
		}
	}
	return o
}

func coqPval(v any) string {
	switch x := v.(type) {
	case nil:
		return "PNil"
	case int64:
		return "(PI64 " + coqZ(x) + ")"
	case int32:
		return "(PI32 " + coqZ(int64(x)) + ")"
	case float64:
		return "(PF " + coqFloat(x) + ")"
	case bool:
		return "(PB " + coqBool(x) + ")"
	case string:
		return "(PS " + coqStr(x) + ")"
	case []any:
		if x == nil {
			return "PNil"
		}
		out := make([]string, len(x))
		for i := range x {
			out[i] = coqPval(x[i])
		}
		return "(PA " + coqList(out) + ")"
	case map[string]any:
		if x == nil {
			return "PNil"
		}
		keys := make([]string, 0, len(x))
		for k := range x {
			keys = append(keys, k)
		}
		sort.Strings(keys)
		out := make([]string, len(keys))
		for i, k := range keys {
			out[i] = "(" + coqStr(k) + ", " + coqPval(x[k]) + ")"
		}
		return "(PO " + coqList(out) + ")"
	}
	return "(PS " + coqStr(fmt.Sprintf("?unprintable %T?", v)) + ")"
}

func c05Pieces(c *C05Case) []string {
	set := map[string]bool{}
	var raws []string
	for _, v := range c.Frag.Path {
		raws = append(raws, v)
	}
	for _, kv := range c.Frag.Query {
		raws = append(raws, kv.Vs...)
	}
	for _, kv := range c.Frag.Header {
		raws = append(raws, kv.Vs...)
	}
	for _, kv := range c.Frag.Cookie {
		raws = append(raws, kv[1])
	}
	delims := []string{",", ".", ";", "=", " ", "|", ";" + c.Name + "="}
	var rec func(s string, depth int)
	rec = func(s string, depth int) {
		if set[s] || len(set) > 400 {
			return
		}
		set[s] = true
		if depth == 0 {
			return
		}
		for _, p := range []string{".", ";", ";" + c.Name + "="} {
			if strings.HasPrefix(s, p) {
				rec(s[len(p):], depth-1)
			}
		}
		for _, d := range delims {
			if strings.Contains(s, d) {
				for _, piece := range strings.Split(s, d) {
					rec(piece, depth-1)
				}
			}
		}
	}
	for _, r := range raws {
		rec(r, 3)
	}
	if c.SVal != nil {
		set[c.SVal.T] = true
		for _, t := range c.SVal.Ts {
			set[t] = true
		}
		for _, kv := range c.SVal.KVs {
			set[kv[1]] = true
		}
	}
	out := make([]string, 0, len(set))
	for s := range set {
		if s != "" {
			out = append(out, s)
		}
	}
	sort.Strings(out)
	return out
}

func c05Coq(c *C05Case, o *C05Obs) string {
	loc := c07LocCoq(c.In)
	ex := "None"
	if c.Explode != nil {
		ex = "(Some " + coqBool(*c.Explode) + ")"
	}
	def := fmt.Sprintf("(mkPDef %s %s %s %s %s %s %s)", loc, coqStr(c.Name), coqStr(c.Style), ex, coqBool(c.Required), coqBool(c.AllowEmpty), c.Schema.Coq())
	var pth, qs, hs, cks []string
	pk := make([]string, 0)
	for k := range c.Frag.Path {
		pk = append(pk, k)
	}
	sort.Strings(pk)
	for _, k := range pk {
		pth = append(pth, fmt.Sprintf("(%s, %s)", coqStr(k), coqStr(c.Frag.Path[k])))
	}
	for _, kv := range c.Frag.Query {
		if len(kv.Vs) == 0 {
			continue // a key without values cannot be carried by a URL
		}
		qs = append(qs, fmt.Sprintf("(%s, %s)", coqStr(kv.K), coqStrList(kv.Vs)))
	}
	for _, kv := range c.Frag.Header {
		hs = append(hs, fmt.Sprintf("(%s, %s)", coqStr(kv.K), coqStrList(kv.Vs)))
	}
	for _, kv := range c.Frag.Cookie {
		cks = append(cks, fmt.Sprintf("(%s, %s)", coqStr(kv[0]), coqStr(kv[1])))
	}
	frag := fmt.Sprintf("(mkFrag %s %s %s %s)", coqList(pth), coqList(qs), coqList(hs), coqList(cks))
	sv := "None"
	if c.SVal != nil {
		switch c.SVal.Kind {
		case "prim":
			sv = "(Some (SPrim " + coqStr(c.SVal.T) + "))"
		case "arr":
			sv = "(Some (SArr " + coqStrList(c.SVal.Ts) + "))"
		default:
			var kvs []string
			for _, kv := range c.SVal.KVs {
				kvs = append(kvs, fmt.Sprintf("(%s, %s)", coqStr(kv[0]), coqStr(kv[1])))
			}
			sv = "(Some (SObj " + coqList(kvs) + "))"
		}
	}
	var i64, i32, fl []string
	for _, s := range c05Pieces(c) {
		if n, err := strconv.ParseInt(s, 0, 64); err == nil {
			i64 = append(i64, fmt.Sprintf("(%s, Some %s)", coqStr(s), coqZ(n)))
		}
		if n, err := strconv.ParseInt(s, 0, 32); err == nil {
			i32 = append(i32, fmt.Sprintf("(%s, Some %s)", coqStr(s), coqZ(n)))
		}
		if f, err := strconv.ParseFloat(s, 64); err == nil {
			fl = append(fl, fmt.Sprintf("(%s, Some %s)", coqStr(s), coqFloat(f)))
		}
	}
	// regexp / format oracles over the decoded value
	sc := SCase{Schema: c.Schema, Value: jsonOfGo(o.Value)}
	comp, mat, fmts := schemaOracles(&sc)
	return fmt.Sprintf("mkC05 %s %s %s %s %s %s %s %s %s %s %s %s %d%%N %d%%N",
		def, frag, coqBool(c.Multi), sv, coqList(i64), coqList(i32), coqList(fl), coqList(comp), coqList(mat), coqList(fmts),
		coqPval(o.Value), coqBool(o.Found), o.Err, o.Valid)
}

func jsonOfGo(v any) any {
	switch x := v.(type) {
	case int64:
		return float64(x)
	case int32:
		return float64(x)
	case []any:
		out := make([]any, len(x))
		for i := range x {
			out[i] = jsonOfGo(x[i])
		}
		return out
	case map[string]any:
		out := map[string]any{}
		for k, e := range x {
			out[k] = jsonOfGo(e)
		}
		return out
	}
	return v
}

// ---- generators ----
var c05Cells = []struct {
	in, style string
	explode   *bool
}{
	{"path", "", nil}, {"path", "simple", bp(false)}, {"path", "simple", bp(true)}, {"path", "label", bp(false)}, {"path", "label", bp(true)},
	{"path", "matrix", bp(false)}, {"path", "matrix", bp(true)},
	{"query", "", nil}, {"query", "form", bp(true)}, {"query", "form", bp(false)}, {"query", "spaceDelimited", bp(false)}, {"query", "spaceDelimited", bp(true)},
	{"query", "pipeDelimited", bp(false)}, {"query", "pipeDelimited", bp(true)},
	{"header", "", nil}, {"header", "simple", bp(false)}, {"header", "simple", bp(true)},
	{"cookie", "", nil}, {"cookie", "form", bp(false)}, {"cookie", "form", bp(true)},
	// a style written out, explode left to its default (true for form, false for every other style)
	{"path", "label", nil}, {"path", "matrix", nil}, {"query", "form", nil}, {"query", "spaceDelimited", nil}, {"query", "pipeDelimited", nil},
	{"header", "simple", nil}, {"cookie", "form", nil},
}

var c05IntTexts = []string{"5", "-3", "0", "42", "7", "10", "2147483648", "+7", "0x10", "1_0", "007", "9223372036854775807", "9223372036854775808", "1.5", "abc", "", "100", "11"}
var c05NumTexts = []string{"1.5", "-2", "3", "1e3", "0.1", "10", "NaN", "Inf", "1_0", "x", ""}
var c05BoolTexts = []string{"true", "false", "1", "0", "T", "F", "True", "TRUE", "yes", ""}
var c05StrTexts = []string{"a", "abc", "admin", "Alex", "x y", "a,b", "a.b", "a;b", "a=b", "a|b", "héllo", "", "12", "true", "id", "idea", "dad", "i", "v1x", "color", "loco"}

func c05PrimSchema(r *Rng) (*GSchema, []string) {
	switch r.Intn(5) {
	case 0, 1:
		g := &GSchema{HasTypes: true, Types: []string{"integer"}}
		if r.Chance(25) {
			g.Format = "int32"
		}
		if r.Chance(30) {
			g.Min = fp(0)
		}
		if r.Chance(30) {
			g.Max = fp(10)
		}
		if r.Chance(15) {
			g.Enum = []any{5.0, 7.0, 42.0}
		}
		return g, c05IntTexts
	case 2:
		g := &GSchema{HasTypes: true, Types: []string{"number"}}
		if r.Chance(30) {
			g.Max = fp(5)
		}
		if r.Chance(30) {
			// the declared width does not change the number a text stands for (0.1 is 0.1, not its float32 neighbour)
			g.Format = Pick(r, []string{"float", "double"})
			if r.Chance(50) {
				g.Enum = []any{0.1, 0.7, 2.5, 1.5}
			}
		}
		return g, c05NumTexts
	case 3:
		return &GSchema{HasTypes: true, Types: []string{"boolean"}}, c05BoolTexts
	default:
		g := &GSchema{HasTypes: true, Types: []string{"string"}}
		if r.Chance(30) {
			g.MaxLen = up(4)
		}
		if r.Chance(20) {
			g.Pattern = "^[a-z]+$"
		}
		if r.Chance(15) {
			g.Enum = []any{"admin", "abc"}
		}
		return g, c05StrTexts
	}
}

func pickText(r *Rng, pool []string, hostile bool) string {
	for {
		t := Pick(r, pool)
		bad := t == "" || strings.ContainsAny(t, ",.;=| ")
		if bad && !hostile {
			continue
		}
		return t
	}
}

func c05Random(r *Rng) C05Case {
	cell := Pick(r, c05Cells)
	c := C05Case{In: cell.in, Style: cell.style, Explode: cell.explode, Name: Pick(r, []string{"id", "id", "a", "v1", "color"}), Required: r.Chance(40), AllowEmpty: r.Chance(15), Multi: r.Chance(25)}
	if c.In == "header" {
		c.Name = "X-Id"
	}
	if c.In == "path" {
		c.Required = true
	}
	hostile := r.Chance(20)
	v := &SVal{}
	switch r.Intn(3) {
	case 0:
		g, pool := c05PrimSchema(r)
		c.Schema = g
		v.Kind, v.T = "prim", pickText(r, pool, hostile)
	case 1:
		item, pool := c05PrimSchema(r)
		c.Schema = &GSchema{HasTypes: true, Types: []string{"array"}, Items: item}
		if r.Chance(25) {
			c.Schema.MaxItems = up(2)
		}
		if r.Chance(20) {
			c.Schema.Unique = true
		}
		if r.Chance(10) {
			c.Schema.Enum = []any{[]any{5.0, 7.0}}
		}
		n := 1 + r.Intn(4)
		if hostile && r.Chance(20) {
			n = 0
		}
		v.Kind = "arr"
		for i := 0; i < n; i++ {
			v.Ts = append(v.Ts, pickText(r, pool, hostile))
		}
	default:
		c.Schema = &GSchema{HasTypes: true, Types: []string{"object"}, Props: map[string]*GSchema{}}
		v.Kind = "obj"
		names := []string{"role", "age", "ok", "firstName"}
		for _, k := range names {
			if r.Chance(65) {
				g, pool := c05PrimSchema(r)
				c.Schema.Props[k] = g
				if r.Chance(75) {
					v.KVs = append(v.KVs, [2]string{k, pickText(r, pool, hostile)})
				}
				if r.Chance(30) {
					c.Schema.Required = append(c.Schema.Required, k)
				}
			}
		}
		if r.Chance(20) {
			c.Schema.Ap = &GSchema{HasTypes: true, Types: []string{"string"}}
			v.KVs = append(v.KVs, [2]string{"extra", pickText(r, c05StrTexts, hostile)})
		} else if hostile && r.Chance(30) {
			v.KVs = append(v.KVs, [2]string{"undeclared", "x"})
		}
		if r.Chance(15) {
			c.Schema.ApHas = bp(false)
		}
		if len(v.KVs) == 0 && !hostile {
			c.Schema.Props["role"] = &GSchema{HasTypes: true, Types: []string{"string"}}
			v.KVs = append(v.KVs, [2]string{"role", "admin"})
		}
	}
	switch r.Intn(10) {
	case 0: // absent
		c.SVal = nil
		c.Frag = C05Frag{}
		if c.In == "path" && r.Bool() {
			c.Frag.Path = map[string]string{"other": "1"}
		}
		if c.In == "query" && r.Bool() {
			c.Frag.Query = []KVs{{"other", []string{"1"}}}
		}
	case 1: // malformed text
		c.SVal = nil
		raw := Pick(r, []string{"", ".", ";", ";id=", ";id", "a,b,c", "a=1,b", "1,,2", ".1.2", ";id=1;id=2", "role,admin,age", "x=1=2", ",", "=", "1|2|x", "1 2"})
		switch c.In {
		case "path":
			c.Frag = C05Frag{Path: map[string]string{c.Name: raw}}
		case "query":
			c.Frag = C05Frag{Query: []KVs{{c.Name, []string{raw}}}}
			if r.Chance(30) {
				c.Frag.Query = append(c.Frag.Query, KVs{"role", []string{"admin", "x"}})
			}
		case "header":
			c.Frag = C05Frag{Header: []KVs{{c.Name, []string{raw}}}}
		default:
			raw = strings.NewReplacer(";", "", " ", "").Replace(raw)
			c.Frag = C05Frag{Cookie: [][2]string{{c.Name, raw}}}
		}
	default:
		c.SVal = v
		c.Frag = c.serialise(v)
		c.fixup()
	}
	return c
}

// definedCell: the OpenAPI style table defines a serialisation of this shape in this cell
func (c *C05Case) definedCell(kind string) bool {
	st, ex := c.effStyle(), c.effExplode()
	switch c.In {
	case "query":
		if st == "spaceDelimited" || st == "pipeDelimited" {
			return kind == "arr"
		}
	case "cookie":
		if ex {
			return kind == "prim"
		}
	}
	return true
}

// fixup: a value in a cell the table leaves undefined goes to the malformed stream (no expected
// value); cookie texts outside the cookie-octet alphabet are dropped by net/http before the library
// sees them, so they are replaced
func (c *C05Case) fixup() {
	if c.SVal == nil {
		return
	}
	if c.In == "cookie" {
		clean := func(t string) string {
			var b strings.Builder
			for i := 0; i < len(t); i++ {
				if ch := t[i]; ch > 0x20 && ch < 0x7f && ch != '"' && ch != ';' && ch != '\\' {
					b.WriteByte(ch)
				}
			}
			return b.String()
		}
		c.SVal.T = clean(c.SVal.T)
		for i := range c.SVal.Ts {
			c.SVal.Ts[i] = clean(c.SVal.Ts[i])
		}
		for i := range c.SVal.KVs {
			c.SVal.KVs[i][1] = clean(c.SVal.KVs[i][1])
		}
		c.Frag = c.serialise(c.SVal)
	}
	if !c.definedCell(c.SVal.Kind) || (c.SVal.Kind == "arr" && len(c.SVal.Ts) == 0) || (c.SVal.Kind == "obj" && len(c.SVal.KVs) == 0) {
		c.SVal = nil
	}
}

func c05Directed() []C05Case {
	var out []C05Case
	intS := func() *GSchema { return &GSchema{HasTypes: true, Types: []string{"integer"}} }
	strS := func() *GSchema { return &GSchema{HasTypes: true, Types: []string{"string"}} }
	arr := func(item *GSchema) *GSchema { return &GSchema{HasTypes: true, Types: []string{"array"}, Items: item} }
	obj := &GSchema{HasTypes: true, Types: []string{"object"}, Props: map[string]*GSchema{"role": strS(), "firstName": strS(), "age": intS()}}
	for _, cell := range c05Cells {
		name := "id"
		if cell.in == "header" {
			name = "X-Id"
		}
		base := C05Case{In: cell.in, Style: cell.style, Explode: cell.explode, Name: name, Required: true}
		for _, sv := range []struct {
			g *GSchema
			v SVal
		}{
			{intS(), SVal{Kind: "prim", T: "5"}}, {strS(), SVal{Kind: "prim", T: "admin"}},
			{arr(intS()), SVal{Kind: "arr", Ts: []string{"3", "4", "5"}}}, {arr(strS()), SVal{Kind: "arr", Ts: []string{"a"}}},
			{obj, SVal{Kind: "obj", KVs: [][2]string{{"role", "admin"}, {"firstName", "Alex"}}}},
			{obj, SVal{Kind: "obj", KVs: [][2]string{{"age", "7"}}}},
			{arr(strS()), SVal{Kind: "arr", Ts: []string{"a", "", "b"}}}, {arr(strS()), SVal{Kind: "arr", Ts: []string{"a,b", "c"}}},
			{&GSchema{HasTypes: true, Types: []string{"integer"}, Format: "int32", Enum: []any{5.0}}, SVal{Kind: "prim", T: "5"}},
			{&GSchema{HasTypes: true, Types: []string{"integer"}, Enum: []any{5.0}}, SVal{Kind: "prim", T: "5"}},
			{intS(), SVal{Kind: "prim", T: "0x10"}}, {intS(), SVal{Kind: "prim", T: "abc"}},
			// the declared width of a number is not a rounding instruction: 0.1 is read as the float64 0.1
			{&GSchema{HasTypes: true, Types: []string{"number"}, Format: "float", Max: fp(0.1)}, SVal{Kind: "prim", T: "0.1"}},
			{&GSchema{HasTypes: true, Types: []string{"number"}, Format: "float", Enum: []any{0.1, 0.7, 2.5}}, SVal{Kind: "prim", T: "0.7"}},
			{&GSchema{HasTypes: true, Types: []string{"number"}, Format: "double", Min: fp(0.3), Max: fp(0.3)}, SVal{Kind: "prim", T: "0.3"}},
			{arr(&GSchema{HasTypes: true, Types: []string{"number"}, Format: "float", Enum: []any{0.1, 0.7, 2.5}}), SVal{Kind: "arr", Ts: []string{"0.1", "0.7"}}},
			// a list of types: the text is read as the first type of the list that can read it
			{&GSchema{HasTypes: true, Types: []string{"integer", "string"}, Min: fp(10)}, SVal{Kind: "prim", T: "5"}},
			{&GSchema{HasTypes: true, Types: []string{"integer", "string"}, Min: fp(10)}, SVal{Kind: "prim", T: "50"}},
			{&GSchema{HasTypes: true, Types: []string{"integer", "string"}}, SVal{Kind: "prim", T: "unlimited"}},
			{&GSchema{HasTypes: true, Types: []string{"integer", "string"}, Enum: []any{1.0, 2.0, "auto"}}, SVal{Kind: "prim", T: "1"}},
			{&GSchema{HasTypes: true, Types: []string{"integer", "string"}, Enum: []any{1.0, 2.0, "auto"}}, SVal{Kind: "prim", T: "auto"}},
			{&GSchema{HasTypes: true, Types: []string{"string", "integer"}, MaxLen: up(1)}, SVal{Kind: "prim", T: "55"}},
			{&GSchema{HasTypes: true, Types: []string{"boolean", "integer"}}, SVal{Kind: "prim", T: "7"}},
			{&GSchema{HasTypes: true, Types: []string{"number", "string"}, Max: fp(1)}, SVal{Kind: "prim", T: "1.5"}},
			{arr(&GSchema{HasTypes: true, Types: []string{"integer", "string"}}), SVal{Kind: "arr", Ts: []string{"3", "x", "5"}}},
			{&GSchema{HasTypes: true, Types: []string{"object"}, Props: map[string]*GSchema{"ratio": {HasTypes: true, Types: []string{"number"}, Format: "float", Max: fp(0.1)}}}, SVal{Kind: "obj", KVs: [][2]string{{"ratio", "0.1"}}}},
		} {
			c := base
			c.Schema = sv.g
			v := sv.v
			c.SVal = &v
			c.Frag = c.serialise(&v)
			c.fixup()
			out = append(out, c)
		}
		absent := base
		absent.Schema = intS()
		out = append(out, absent)
		opt := base
		opt.Schema, opt.Required = intS(), cell.in == "path"
		out = append(out, opt)
	}
	return out
}

func init() {
	runners["C05"] = func(seed uint64, n int, outDir string, replay string) {
		var cases []C05Case
		if replay != "" {
			cases = loadReplayCases[C05Case](replay)
		} else {
			cases = append(loadCorpus[C05Case]("C05"), c05Directed()...)
			r := NewRng(seed)
			for i := 0; i < n; i++ {
				cases = append(cases, c05Random(r))
			}
		}
		meta := &Meta{Property: "C05", Seed: seed, Histogram: map[string]int{}, Shard: 800,
			Rule: "every (in,style,explode) cell x {primitive, array of primitives, flat object} x leaf texts (integers incl. 0x/underscore/overflow, numbers, 12 boolean spellings, strings incl. every delimiter and the empty string) serialised by the OpenAPI table, plus absent and malformed-text streams; plus deepObject query parameters against the model of the deepObject decoder (Model/DeepObject.v): directed + n/3 queries, half the serialisation of a value with noise keys, half hostile (conflicting keys, non-integer / negative / sparse / huge indexes, empty and unbalanced brackets, repeated keys, undeclared members with and without additionalProperties, texts of the wrong type); plus (Go side) deepObject query parameters over object schemas of depth <= 3 with primitive, array, nested-object and array-of-objects members, their values serialised as name[a][0][b]=v next to keys of other parameters whose names extend or contain the name; non-trivial = a value was serialised or a malformed text is present; distinct by JSON of the case"}
		seen := map[string]bool{}
		var terms []string
		for i := range cases {
			c := &cases[i]
			if c.Deep != nil {
				continue // replayed deepObject cases are handled below
			}
			o := runC05(c)
			for _, t := range c05Transport(c, &o) {
				meta.Histogram["oracle:"+t[0]]++
				meta.GoViolation = append(meta.GoViolation, map[string]any{"signature": t[0], "cases": []any{c}, "go_observation": t[1], "judgement": "the way the parameter reaches the decoder: " + t[0] + " " + t[1]})
			}
			terms = append(terms, c05Coq(c, &o))
			meta.Cases = append(meta.Cases, map[string]any{"input": c, "go": o})
			key, _ := json.Marshal(c)
			if (c.SVal != nil || len(c.Frag.Path)+len(c.Frag.Query)+len(c.Frag.Header)+len(c.Frag.Cookie) > 0) && !seen[string(key)] {
				seen[string(key)] = true
				meta.Distinct++
			}
			ex := "default"
			if c.Explode != nil {
				ex = fmt.Sprint(*c.Explode)
			}
			meta.Histogram[fmt.Sprintf("cell=%s/%s/%s", c.In, c.Style, ex)]++
			if c.SVal != nil {
				meta.Histogram["shape="+c.SVal.Kind]++
			} else {
				meta.Histogram["shape=absent-or-malformed"]++
			}
			meta.Histogram[fmt.Sprintf("decode_err=%d", o.Err)]++
			meta.Histogram[fmt.Sprintf("valid=%d", o.Valid)]++
		}
		// deepObject parameters (nested objects, arrays, arrays of objects): Go-side round trip
		if replay == "" {
			dr := NewRng(seed ^ 0x5deeb0b1ec7)
			nd := n / 3
			for i := 0; i < nd; i++ {
				dc := deepRandom(dr)
				sig, detail := runDeep(&dc)
				meta.Histogram["deepObject "+dc.features()]++
				if dc.Value == nil {
					meta.Histogram["deepObject absent"]++
				}
				if sig != "" {
					meta.Histogram["oracle:"+sig]++
					meta.GoViolation = append(meta.GoViolation, map[string]any{"signature": sig, "cases": []any{dc}, "go_observation": detail,
						"judgement": "deepObject round trip on the Go side: " + sig + " " + detail})
				}
			}
			meta.Histogram["deepObject cases"] = nd
			// the same kind of queries, and hostile ones, against the Coq model of the deepObject decoder
			dr2 := NewRng(seed ^ 0xdee9c0)
			for _, dq := range deepQDirected() {
				dq := dq
				cases = append(cases, C05Case{Deep: &dq})
			}
			for i := 0; i < n/3; i++ {
				var dq C05DeepQ
				if i%2 == 0 {
					dc := deepRandom(dr2)
					dq = deepQFrom(&dc)
				} else {
					dq = deepHostile(dr2)
				}
				cases = append(cases, C05Case{Deep: &dq})
			}
			if sig, detail := runCaseVariants(); sig != "" {
				meta.GoViolation = append(meta.GoViolation, map[string]any{"signature": sig, "cases": []any{map[string]string{"path_level": "Limit (required)", "operation_level": "limit", "request": "limit=5"}}, "go_observation": detail, "judgement": sig + " " + detail})
			}
			for _, cc := range compCases() {
				cc := cc
				sig, detail := runComp(&cc)
				meta.Histogram["composition "+cc.Comp]++
				if sig != "" {
					sig += ":" + cc.Comp + ":" + cc.In + "/" + cc.Style
					meta.Histogram["oracle:"+sig]++
					meta.GoViolation = append(meta.GoViolation, map[string]any{"signature": sig, "cases": []any{cc}, "go_observation": detail,
						"judgement": "parameter schema composition on the Go side: " + sig + " " + detail})
				}
			}
		}
		var dterms []string
		var idx, didx []int
		for i := range cases {
			c := &cases[i]
			if c.Deep == nil {
				idx = append(idx, i)
				continue
			}
			o := runDeepQ(c.Deep)
			// meta.Cases is indexed like cases: the plain cases were appended in order, deep ones follow
			meta.Cases = append(meta.Cases, map[string]any{"input": c, "go": o})
			didx = append(didx, len(meta.Cases)-1)
			dterms = append(dterms, deepQCoq(c.Deep, &o))
			kind := "deepObject/model value"
			if c.Deep.Hostile {
				kind = "deepObject/model hostile"
			} else if c.Deep.Expect == nil {
				kind = "deepObject/model absent"
			}
			meta.Histogram[kind]++
			meta.Histogram[fmt.Sprintf("deepObject/model err=%d", o.Err)]++
			key, _ := json.Marshal(c)
			if !seen[string(key)] {
				seen[string(key)] = true
				meta.Distinct++
			}
		}
		meta.NCases = len(cases)
		var off1, off2 []int
		var f2 []string
		meta.Files, off1 = writeCasesAt(outDir, "cases", "From KV Require Import Model.Base Model.Json Model.Schema Model.Request Model.ParamCodec Spec.ParamSpec Exec.C05Exec.", "c05case", "judge", terms, meta.Shard, 0)
		f2, off2 = writeCasesAt(outDir, "deep", "From KV Require Import Model.Base Model.Json Model.Schema Model.Request Model.ParamCodec Model.DeepObject Exec.C05Exec Exec.C05DeepExec.", "c05deep", "judge_deep", dterms, meta.Shard, len(terms))
		meta.Files = append(meta.Files, f2...)
		meta.Offsets = append(off1, off2...)
		// judged-case number -> index into meta.Cases (plain cases keep their order, deep ones follow)
		plain := make([]int, len(terms))
		for i := range plain {
			plain[i] = i
		}
		meta.IndexMap = append(plain, didx...)
		// arrays whose items are a composition, against Model/ItemComp.v (meta.Cases: after all the others)
		if replay == "" || strings.Contains(replay, "items") {
			var ics []C05Items
			if replay != "" {
				ics = loadReplayCases[C05Items](replay)
			} else {
				ics = c05ItemsCases(NewRng(seed^0x17e35), n/3)
			}
			var iterms []string
			for i := range ics {
				io := runC05Items(&ics[i])
				meta.Cases = append(meta.Cases, map[string]any{"input": map[string]any{"composition_items": ics[i]}, "go": io})
				meta.IndexMap = append(meta.IndexMap, len(meta.Cases)-1)
				iterms = append(iterms, c05ItemsCoq(&ics[i], &io))
				meta.Histogram[fmt.Sprintf("composition items err=%d", io.Err)]++
			}
			f3, off3 := writeCasesAt(outDir, "items", "From KV Require Import Model.Base Model.Json Model.Schema Model.ParamCodec Model.ItemComp Exec.C05Exec Exec.C05ItemExec.", "itemcase", "judge_item", iterms, meta.Shard, len(terms)+len(dterms))
			meta.Files = append(meta.Files, f3...)
			meta.Offsets = append(meta.Offsets, off3...)
			meta.Histogram["composition items model comparisons"] = len(iterms)
		}
		_ = idx
		writeMeta(outDir, meta)
		fmt.Fprintf(os.Stderr, "C05: %d cases\n", len(cases))
	}
}
