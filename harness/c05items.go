package main

// C05, array parameters whose items schema is a composition (Model/ItemComp.v, judge
// Exec/C05ItemExec.v): the element texts are sent as an exploded form query parameter and as a
// simple header, decoded through the hook, and compared with parse_array_v; directed cases also say
// which array value the texts serialise.

import (
	"errors"
	"fmt"
	"net/http/httptest"
	"net/url"
	"strconv"
	"strings"

	"github.com/getkin/kin-openapi/openapi3"
	"github.com/getkin/kin-openapi/openapi3filter"
	"github.com/getkin/kin-openapi/routers"
)

type C05Items struct {
	In    string   `json:"in"` // query (form, exploded) | header (simple)
	Item  *GSchema `json:"items"`
	Raws  []string `json:"texts"`
	Value []any    `json:"value,omitempty"` // the array these texts serialise (directed cases)
}

type C05ItemsObs struct {
	Err   int    `json:"error_class"` // 0 none, 1 ParseError, 2 other, 3 panic
	ErrS  string `json:"error,omitempty"`
	Value any    `json:"value"`
}

func itemLeaf(r *Rng) *GSchema {
	switch r.Intn(7) {
	case 0:
		return &GSchema{HasTypes: true, Types: []string{"integer"}}
	case 1:
		return &GSchema{HasTypes: true, Types: []string{"integer"}, Format: "int32"}
	case 2:
		return &GSchema{HasTypes: true, Types: []string{"number"}}
	case 3:
		return &GSchema{HasTypes: true, Types: []string{"boolean"}}
	case 4:
		return &GSchema{HasTypes: true, Types: []string{"string"}}
	case 5:
		return &GSchema{Min: fp(1)} // no type: only a constraint
	}
	return &GSchema{MaxLen: up(3)}
}

func itemComp(r *Rng, depth int) *GSchema {
	if depth == 0 || r.Chance(30) {
		return itemLeaf(r)
	}
	var ms []*GSchema
	for k := 1 + r.Intn(3); k > 0; k-- {
		ms = append(ms, itemComp(r, depth-1))
	}
	g := &GSchema{}
	switch r.Intn(10) {
	case 0, 1, 2, 3:
		g.AllOf = ms
	case 4, 5, 6:
		g.AnyOf = ms
	case 7, 8:
		g.OneOf = ms
	default:
		g.Not = ms[0]
	}
	if r.Chance(10) {
		// two keywords at once: allOf is looked at first, then anyOf, then oneOf
		g.AnyOf = append(g.AnyOf, itemLeaf(r))
	}
	return g
}

func c05ItemsCases(r *Rng, n int) []C05Items {
	T := func(t string) *GSchema { return &GSchema{HasTypes: true, Types: []string{t}} }
	min1 := &GSchema{Min: fp(1)}
	var out []C05Items
	ints := []any{int64(7), int64(8), int64(9)}
	for _, in := range []string{"query", "header"} {
		for _, item := range []*GSchema{
			{AllOf: []*GSchema{T("integer"), {HasTypes: true, Types: []string{"integer"}, Min: fp(1)}}},
			{AllOf: []*GSchema{T("integer"), min1}}, {AllOf: []*GSchema{min1, T("integer")}}, {AllOf: []*GSchema{min1, T("integer"), min1}},
			{AllOf: []*GSchema{{AllOf: []*GSchema{min1, T("integer")}}, min1}},
			{AnyOf: []*GSchema{T("integer"), T("boolean")}}, {AnyOf: []*GSchema{T("boolean"), T("integer")}},
			{OneOf: []*GSchema{T("integer"), {HasTypes: true, Types: []string{"object"}}}},
			{AllOf: []*GSchema{{AnyOf: []*GSchema{T("boolean"), T("integer")}}, min1}},
		} {
			out = append(out, C05Items{In: in, Item: item, Raws: []string{"7", "8", "9"}, Value: ints})
		}
		// integer and boolean both read "1": oneOf refuses it
		out = append(out, C05Items{In: in, Item: &GSchema{OneOf: []*GSchema{T("integer"), T("boolean")}}, Raws: []string{"1", "7"}})
		out = append(out, C05Items{In: in, Item: &GSchema{OneOf: []*GSchema{T("integer"), T("boolean")}}, Raws: []string{"7", "true"}, Value: []any{int64(7), true}})
		out = append(out, C05Items{In: in, Item: &GSchema{Not: T("integer")}, Raws: []string{"7"}})
	}
	pool := []string{"7", "1", "0", "true", "abc", "1.5", "0x10", "-3", "2147483648", "t", "1e2", "x y"}
	for i := 0; i < n; i++ {
		c := C05Items{In: Pick(r, []string{"query", "header"}), Item: itemComp(r, 2)}
		for k := 1 + r.Intn(3); k > 0; k-- {
			c.Raws = append(c.Raws, Pick(r, pool))
		}
		if c.In == "query" && r.Chance(10) {
			c.Raws[r.Intn(len(c.Raws))] = ""
		}
		out = append(out, c)
	}
	return out
}

func runC05Items(c *C05Items) C05ItemsObs {
	var o C05ItemsObs
	arr := &GSchema{HasTypes: true, Types: []string{"array"}, Items: c.Item}
	p := &openapi3.Parameter{Name: "ids", In: c.In, Schema: arr.ToOpenAPI().NewRef()}
	if c.In == "query" {
		p.Style, p.Explode = "form", openapi3.BoolPtr(true)
	} else {
		p.Style, p.Explode = "simple", openapi3.BoolPtr(false)
	}
	op := openapi3.NewOperation()
	op.Parameters = openapi3.Parameters{&openapi3.ParameterRef{Value: p}}
	item := &openapi3.PathItem{Get: op}
	doc := &openapi3.T{OpenAPI: "3.0.0", Info: &openapi3.Info{Title: "t", Version: "1"}, Paths: openapi3.NewPaths()}
	route := &routers.Route{Spec: doc, Path: "/p", PathItem: item, Method: "GET", Operation: op}
	req := httptest.NewRequest("GET", "/p", nil)
	if c.In == "query" {
		q := url.Values{}
		for _, t := range c.Raws {
			q.Add("ids", t)
		}
		req.URL.RawQuery = q.Encode()
	} else {
		req.Header.Set("ids", strings.Join(c.Raws, ","))
	}
	in := &openapi3filter.RequestValidationInput{Request: req, Route: route, Options: &openapi3filter.Options{SkipSettingDefaults: true}}
	var val any
	var err error
	if pn := catchPanic(func() { val, _, err = openapi3filter.VerifDecodeStyledParameter(p, in) }); pn != nil {
		o.Err, o.ErrS = 3, fmt.Sprint(pn)
		return o
	}
	if err != nil {
		catchPanic(func() { o.ErrS = err.Error() })
		var pe *openapi3filter.ParseError
		if errors.As(err, &pe) {
			o.Err = 1
		} else {
			o.Err = 2
		}
		return o
	}
	o.Value = val
	return o
}

func c05ItemsCoq(c *C05Items, o *C05ItemsObs) string {
	var i64, i32, fl []string
	seen := map[string]bool{}
	for _, s := range c.Raws {
		if seen[s] {
			continue
		}
		seen[s] = true
		if n, err := strconv.ParseInt(s, 0, 64); err == nil {
			i64 = append(i64, fmt.Sprintf("(%s, Some %s)", coqStr(s), coqZ(n)))
		}
		if n, err := strconv.ParseInt(s, 0, 32); err == nil {
			i32 = append(i32, fmt.Sprintf("(%s, Some %s)", coqStr(s), coqZ(n)))
		}
		if f, err := strconv.ParseFloat(s, 64); err == nil {
			fl = append(fl, fmt.Sprintf("(%s, Some %s)", coqStr(s), coqFloat(f)))
		}
	}
	sval := "None"
	if c.Value != nil {
		sval = "(Some " + coqPval(c.Value) + ")"
	}
	return fmt.Sprintf("mkIC %s %s %s %s %s %s %s %d%%N", c.Item.Coq(), coqStrList(c.Raws), coqList(i64), coqList(i32), coqList(fl), sval, coqPval(o.Value), o.Err)
}
