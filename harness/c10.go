package main

// C10: hostile traffic against legal-but-unusual documents.  Every document that loads and passes
// document validation gets both routers; every generated request and response goes through
// FindRoute, ValidateRequest, ValidateResponse, ConvertErrors, Error() and the validation
// middleware, in a child process (watchdog + fatal errors); a panic anywhere is the violation, the
// first kin-openapi function on its stack the signature.

import (
	"bytes"
	"context"
	"encoding/json"
	"fmt"
	"io"
	"net/http"
	"net/http/httptest"
	"net/url"
	"os"
	"regexp"
	"runtime/debug"
	"strings"
	"syscall"
	"time"

	"github.com/getkin/kin-openapi/openapi3"
	"github.com/getkin/kin-openapi/openapi3filter"
	"github.com/getkin/kin-openapi/routers"
	"github.com/getkin/kin-openapi/routers/gorillamux"
	"github.com/getkin/kin-openapi/routers/legacy"
)

type C10Req struct {
	Method   string              `json:"method"`
	Target   string              `json:"target"` // request target (path + query), raw
	Header   map[string][]string `json:"header,omitempty"`
	Body     string              `json:"body,omitempty"`
	Status   int                 `json:"status"`
	RHeader  map[string][]string `json:"response_header,omitempty"`
	RBody    string              `json:"response_body,omitempty"`
	Multi    bool                `json:"multi_error,omitempty"`
	Strict   bool                `json:"include_response_status,omitempty"`
	ExclBody bool                `json:"exclude_bodies,omitempty"`
	RNoBody  bool                `json:"response_without_body,omitempty"` // ResponseValidationInput.Body is nil (a response that has no body at all)
}
type C10Case struct {
	Doc  map[string]any `json:"doc"`
	Reqs []C10Req       `json:"requests"`
}
type C10Obs struct {
	Skip   string   `json:"skipped,omitempty"`
	Panics []string `json:"panics,omitempty"`
	Done   int      `json:"requests_run"`
	Routed int      `json:"requests_routed"`
	ReqOK  int      `json:"requests_valid"`
	RespOK int      `json:"responses_valid"`
	Why    string   `json:"why,omitempty"`
}

var kinFrame = regexp.MustCompile(`github\.com/getkin/kin-openapi/[\w/]+\.(\(\*?\w+\)\.)?\w+`)

func guard(o *C10Obs, stage string, f func()) {
	defer func() {
		if r := recover(); r != nil {
			sig := stage
			if m := kinFrame.FindAllString(string(debug.Stack()), -1); len(m) > 0 {
				for _, fr := range m {
					if !strings.Contains(fr, "verifharness") {
						sig = stage + "@" + strings.TrimPrefix(fr, "github.com/getkin/kin-openapi/")
						break
					}
				}
			}
			o.Panics = append(o.Panics, sig)
		}
	}()
	f()
}

func c10One(c *C10Case, phase func(string)) C10Obs {
	var o C10Obs
	data, _ := json.Marshal(c.Doc)
	var doc *openapi3.T
	var err error
	guard(&o, "load", func() { doc, err = openapi3.NewLoader().LoadFromData(data) })
	if doc == nil || err != nil {
		o.Skip = "does not load"
		return o
	}
	phase("validate")
	guard(&o, "validate", func() { err = doc.Validate(context.Background()) })
	if err != nil {
		o.Skip = "not a valid document"
		o.Why = err.Error()
		if len(o.Why) > 120 {
			o.Why = o.Why[:120]
		}
		return o
	}
	phase("routers")
	var rs []routers.Router
	guard(&o, "router", func() {
		if r, e := gorillamux.NewRouter(doc); e == nil {
			rs = append(rs, r)
		}
		if r, e := legacy.NewRouter(doc); e == nil {
			rs = append(rs, r)
		}
	})
	for _, q := range c.Reqs {
		phase("traffic")
		for ri, router := range rs {
			mk := func() *http.Request {
				req, e := http.NewRequest(q.Method, "http://example.com"+q.Target, strings.NewReader(q.Body))
				if e != nil || req == nil {
					return nil
				}
				for k, vs := range q.Header {
					for _, v := range vs {
						req.Header.Add(k, v)
					}
				}
				return req
			}
			req := mk()
			if req == nil {
				continue
			}
			var route *routers.Route
			var pp map[string]string
			guard(&o, fmt.Sprintf("find-route-%d", ri), func() { route, pp, _ = router.FindRoute(req) })
			if route == nil {
				continue
			}
			o.Routed++
			opts := &openapi3filter.Options{MultiError: q.Multi, AuthenticationFunc: openapi3filter.NoopAuthenticationFunc,
				IncludeResponseStatus: q.Strict, ExcludeRequestBody: q.ExclBody, ExcludeResponseBody: q.ExclBody}
			in := &openapi3filter.RequestValidationInput{Request: req, PathParams: pp, Route: route, Options: opts}
			var verr error
			guard(&o, "validate-request", func() { verr = openapi3filter.ValidateRequest(context.Background(), in) })
			if verr == nil {
				o.ReqOK++
			}
			if verr != nil {
				guard(&o, "error-text", func() { _ = verr.Error() })
				guard(&o, "convert-errors", func() { _ = openapi3filter.ConvertErrors(verr) })
			}
			rin := &openapi3filter.ResponseValidationInput{RequestValidationInput: in, Status: q.Status, Header: http.Header(q.RHeader),
				Body: io.NopCloser(strings.NewReader(q.RBody)), Options: opts}
			if q.RNoBody {
				rin.Body = nil
			}
			var rerr error
			guard(&o, "validate-response", func() { rerr = openapi3filter.ValidateResponse(context.Background(), rin) })
			// the same input once more (a caller re-validating, e.g. in another error mode)
			guard(&o, "validate-response-again", func() { _ = openapi3filter.ValidateResponse(context.Background(), rin) })
			if rerr == nil {
				o.RespOK++
			}
			if rerr != nil {
				guard(&o, "error-text", func() { _ = rerr.Error() })
			}
			// the middleware, strict and not
			for _, strict := range []bool{false, true} {
				guard(&o, "middleware", func() {
					v := openapi3filter.NewValidator(router, openapi3filter.Strict(strict), openapi3filter.ValidationOptions(*opts))
					h := v.Middleware(http.HandlerFunc(func(w http.ResponseWriter, r *http.Request) {
						for k, vs := range q.RHeader {
							for _, x := range vs {
								w.Header().Add(k, x)
							}
						}
						if q.Status >= 100 && q.Status <= 999 {
							w.WriteHeader(q.Status)
						}
						io.Copy(w, bytes.NewBufferString(q.RBody))
					}))
					if r2 := mk(); r2 != nil {
						h.ServeHTTP(httptest.NewRecorder(), r2)
					}
				})
			}
		}
		o.Done++
	}
	o.Panics = dedup(o.Panics)
	return o
}

// the document uses one of the schemas that reach themselves through a composition
func c10UsesCycle(c *C10Case) bool {
	pb, _ := json.Marshal(c.Doc["paths"])
	return regexp.MustCompile(`#/components/schemas/R(Any|All|One)"`).Match(pb)
}

// ---- generation ----
func c10Schema(r *Rng, depth int) map[string]any {
	g := randSchema(r, depth, SchemaGenOpts{Formats: true, ReadOnly: true, Hostile: true})
	b, _ := g.ToOpenAPI().MarshalJSON()
	var m map[string]any
	json.Unmarshal(b, &m)
	if m == nil {
		m = map[string]any{}
	}
	// document validation rejects uncompilable patterns and arrays without items: keep the document legal
	var fix func(x any)
	fix = func(x any) {
		switch t := x.(type) {
		case map[string]any:
			if p, ok := t["pattern"].(string); ok {
				if _, err := regexp.Compile(p); err != nil {
					delete(t, "pattern")
				}
			}
			if l, ok := t["type"].([]any); ok {
				t["type"] = nil
				for _, e := range l {
					if e != "null" {
						t["type"] = e
					}
				}
			}
			if t["type"] == "null" || t["type"] == nil {
				delete(t, "type")
			}
			if t["type"] == "array" && t["items"] == nil {
				t["items"] = map[string]any{}
			}
			delete(t, "default")
			delete(t, "example")
			for _, e := range t {
				fix(e)
			}
		case []any:
			for _, e := range t {
				fix(e)
			}
		}
	}
	fix(m)
	return m
}

var c10Cells = [][3]any{{"path", "simple", false}, {"path", "label", true}, {"path", "matrix", false}, {"path", "matrix", true},
	{"query", "form", true}, {"query", "form", false}, {"query", "spaceDelimited", false}, {"query", "pipeDelimited", true}, {"query", "deepObject", true},
	{"header", "simple", false}, {"header", "simple", true}, {"cookie", "form", false}, {"cookie", "form", true}}

func c10Random(r *Rng) C10Case {
	comps := jobj("schemas", jobj("Rec", jobj("type", "object", "properties", jobj("next", jref("schemas", "Rec"), "v", c10Schema(r, 1))),
		"S", c10Schema(r, 2),
		"D", jobj("type", "object", "properties", jobj("n", jobj("type", "integer", "default", 1.0),
			"cfg", jobj("type", "object", "default", jobj(), "properties", jobj("b", jobj("type", "string", "default", "x"), "c", jobj("type", "integer", "default", 3.0),
				"deep", jobj("type", "object", "default", jobj(), "properties", jobj("z", jobj("type", "boolean", "default", true))))))),
		"M", jobj("type", "object", "properties", jobj("a", jobj("type", "string")),
			"additionalProperties", jobj("type", "object", "properties", jobj("k", jobj("type", "string"), "zz", jobj("type", "string")))),
		"RAny", jobj("anyOf", []any{jref("schemas", "RAny"), jobj("type", "string")}),
		"RAll", jobj("allOf", []any{jobj("type", "string"), jref("schemas", "RAll")}),
		"ROne", jobj("oneOf", []any{jobj("type", "integer"), jref("schemas", "ROne")}),
		// several types, not in alphabetical order: the order is part of the document (parameters are read as the first type that parses)
		"MT", jobj("type", []any{"string", "integer"}, "minimum", 10.0),
		// recursive schemas that do not say `type` (the recursion goes through a property / the items: it consumes the value)
		"TRec", jobj("properties", jobj("next", jref("schemas", "TRec"), "v", jobj("type", "integer"))),
		"TItems", jobj("items", jref("schemas", "TItems"))))
	paths := map[string]any{}
	var templates []string
	methodsOf := map[string][]string{}
	for pi := 0; pi < 1+r.Intn(3); pi++ {
		nvars := r.Intn(3)
		tpl := Pick(r, []string{"/a", "/b/c", "/x", "/items"})
		var params []any
		for v := 0; v < nvars; v++ {
			name := fmt.Sprintf("p%d", v)
			tpl += "/{" + name + "}"
			cell := Pick(r, c10Cells[:4])
			params = append(params, jobj("name", name, "in", "path", "required", true, "style", cell[1], "explode", cell[2], "schema", c10Schema(r, 1)))
		}
		if r.Chance(20) {
			tpl += "/"
		}
		if _, dup := paths[tpl]; dup {
			continue
		}
		for k := 0; k < r.Intn(4); k++ {
			cell := Pick(r, c10Cells[4:])
			p := jobj("name", Pick(r, []string{"q", "id", "X-H", "f", "a b", "q[x]"}), "in", cell[0], "required", r.Chance(30))
			if r.Chance(80) {
				p["style"], p["explode"], p["schema"] = cell[1], cell[2], Pick(r, []any{c10Schema(r, 2), jref("schemas", "S"), jref("schemas", "Rec"), jref("schemas", "MT")})
			} else {
				p["content"] = jobj("application/json", jobj("schema", c10Schema(r, 1)))
				if r.Chance(25) {
					p["content"] = jobj("application/json", jobj()) // a media type without schema
				}
			}
			if r.Chance(2) {
				// a schema that reaches itself through a composition
				p = jobj("name", p["name"], "in", p["in"], "required", p["required"], "schema", jref("schemas", Pick(r, []string{"RAny", "RAll", "ROne"})))
			}
			if r.Chance(25) {
				// a deepObject parameter whose members are arrays and nested objects
				// (names with characters that mean something in a regular expression included)
				p = jobj("name", Pick(r, []string{"q", "id", "f", "a b", "ids[]", "*opts", "a(b", "x+", "f[", "$filter", "a.b", "q\\"}), "in", "query", "style", "deepObject", "explode", true, "required", r.Chance(30),
					"schema", jobj("type", "object", "properties", jobj(
						"ids", jobj("type", "array", "items", jobj("type", "integer")),
						"a", jobj("type", "object", "properties", jobj("b", jobj("type", "string"))),
						"c", jobj("type", "array", "items", jobj()),
						"v", jobj("type", "array", "items", jobj("type", "object", "properties", jobj("v", jobj("type", "integer")))))))
			}
			dup := false
			for _, e := range params {
				if e.(map[string]any)["name"] == p["name"] && e.(map[string]any)["in"] == p["in"] {
					dup = true
				}
			}
			if !dup {
				params = append(params, p)
			}
		}
		item := map[string]any{}
		for _, meth := range []string{"get", "post", "put", "delete", "patch", "head", "options", "trace"} {
			if !r.Chance(35) {
				continue
			}
			op := jobj("responses", map[string]any{})
			resp := op["responses"].(map[string]any)
			for k := 0; k < 1+r.Intn(3); k++ {
				rd := jobj("description", "d")
				if r.Chance(70) {
					ct := Pick(r, []string{"application/json", "text/plain", "application/*", "*/*", "application/x-www-form-urlencoded", "multipart/form-data", "application/xml"})
					rd["content"] = jobj(ct, jobj("schema", Pick(r, []any{c10Schema(r, 2), jref("schemas", "Rec")})))
					if r.Chance(15) {
						rd["content"] = jobj(ct, jobj()) // a media type without schema
					}
				}
				if r.Chance(50) {
					h := jobj("required", r.Bool())
					if r.Chance(70) {
						h["schema"] = c10Schema(r, 1)
					} else {
						h["content"] = jobj("application/json", jobj("schema", c10Schema(r, 1)))
					}
					rd["headers"] = jobj(Pick(r, []string{"X-Rate", "Content-Type", "x y"}), h)
				}
				resp[Pick(r, []string{"200", "201", "2XX", "4XX", "default", "404", "5XX"})] = rd
			}
			if meth != "get" && meth != "head" && r.Chance(70) {
				content := map[string]any{}
				for k := 0; k < 1+r.Intn(2); k++ {
					ct := Pick(r, []string{"application/json", "text/plain", "application/x-www-form-urlencoded", "multipart/form-data", "application/octet-stream", "application/problem+json", "*/*", "text/csv", "application/zip", "application/x-yaml", "application/yaml", "application/x-yaml"})
					mt := jobj("schema", Pick(r, []any{c10Schema(r, 2), jref("schemas", "Rec"), jref("schemas", "D"), jref("schemas", "M"), jref("schemas", "MT"), jref("schemas", "TRec"), jref("schemas", "TItems"), jobj("type", "object", "properties", jobj("a", c10Schema(r, 1), "f", jobj("type", "string", "format", "binary")))}))
					if ct == "multipart/form-data" && r.Chance(50) {
						mt = jobj("schema", jref("schemas", "M"))
					}
					if strings.Contains(ct, "form") && r.Chance(40) {
						mt["encoding"] = jobj("a", jobj("contentType", Pick(r, []string{"application/json", "text/plain", "bogus"}), "style", "form", "explode", r.Bool()))
					}
					if strings.Contains(ct, "yaml") && r.Chance(60) {
						// a schema that says something without stating a type
						mt = jobj("schema", Pick(r, []any{jobj("properties", jobj("a", jobj("type", "integer")), "required", []any{"a"}), jobj("minimum", 1), jobj("format", "date-time"), jobj("required", []any{"when"}),
							jobj("additionalProperties", jobj("minimum", 0))}))
					}
					if r.Chance(10) {
						mt = jobj() // a media type without schema
					}
					content[ct] = mt
				}
				op["requestBody"] = jobj("required", r.Bool(), "content", content)
			}
			if r.Chance(30) {
				op["security"] = []any{jobj("k", []any{}), jobj()}
			}
			if r.Chance(45) {
				// parameters of the operation itself (next to those of the path item)
				var ops []any
				for k := 0; k < 1+r.Intn(2); k++ {
					ops = append(ops, jobj("name", Pick(r, []string{"limit", "opq", "X-Op"})+fmt.Sprint(k), "in", Pick(r, []string{"query", "header"}), "required", r.Chance(40), "schema", c10Schema(r, 1)))
				}
				op["parameters"] = ops
			}
			item[meth] = op
			methodsOf[tpl] = append(methodsOf[tpl], strings.ToUpper(meth))
		}
		if len(item) == 0 {
			item["get"] = jobj("responses", jobj("200", jobj("description", "d")))
			methodsOf[tpl] = []string{"GET"}
		}
		item["parameters"] = params
		paths[tpl] = item
		templates = append(templates, tpl)
	}
	comps["securitySchemes"] = jobj("k", jobj("type", "apiKey", "in", Pick(r, []string{"header", "query", "cookie"}), "name", "X-Key"))
	doc := jobj("openapi", "3.0.3", "info", jobj("title", "t", "version", "1"), "paths", paths, "components", comps)
	if r.Chance(25) {
		doc["servers"] = []any{jobj("url", Pick(r, []string{"http://example.com", "/base", "https://{h}.example.com/v1", "http://example.com:8080/x/"}),
			"variables", jobj("h", jobj("default", "api")))}
		if !strings.Contains(fmt.Sprint(doc["servers"]), "{h}") {
			delete(doc["servers"].([]any)[0].(map[string]any), "variables")
		}
	}
	if r.Chance(12) && !strings.Contains(fmt.Sprint(paths), "#/components/") {
		delete(doc, "components") // security requirements naming schemes that nothing declares
	}
	c := C10Case{Doc: doc}
	// traffic
	seg := []string{"1", "abc", "", "%2F", "%", "%zz", "a,b", ".x.y", ";p0=1", ";p0=1;p0=2", "a=1,b=2", "é", "..", "{p0}", "1e400", "NaN", "-0", strings.Repeat("9", 40), "null", "true", "[1]", "{\"a\":1}"}
	bodies := []string{"", "{}", "[]", "null", "1", "true", "\"s\"", "{\"a\":", "{\"next\":{\"next\":{\"next\":null}}}", "{\"a\":1e400}", "a=1&b=2", "a=%zz", "plain", "\x00\xff",
		"--b\r\nContent-Disposition: form-data; name=\"a\"\r\n\r\n1\r\n--b--\r\n",
		"--b\r\nContent-Disposition: form-data; name=\"a\"\r\nContent-Type: application/json\r\n\r\n{\"a\":\r\n--b--\r\n",
		"--b\r\nContent-Disposition: form-data; name=\"a\"\r\nContent-Type: text/plain\r\n\r\nx\r\n--b\r\nContent-Disposition: form-data; name=\"f\"; filename=\"f\"\r\nContent-Type: application/json\r\n\r\n[1,\r\n--b--\r\n",
		"--b\r\nContent-Disposition: form-data; name=\"zz\"\r\nContent-Type: application/x-yaml\r\n\r\na: [\r\n--b--\r\n", "{\"a\":NaN}", "[[[[[[[[[[]]]]]]]]]]", "{\"v\":{\"v\":1}}", "<x/>", "a: 1\nb: [", strings.Repeat("[", 2000),
		"1: x\ntrue: y\n", "a:\n  2: z\n  ~: w\n", "- 1\n- {3: 4}\n", "? [1, 2]\n: v\n"}
	cts := []string{"", "application/json", "application/json; charset=utf-8", "text/plain", "application/x-www-form-urlencoded", "multipart/form-data; boundary=b", "multipart/form-data",
		"application/octet-stream", ";", "a/b/c", "application/problem+json", "APPLICATION/JSON", "text/csv", "application/zip", "application/x-yaml", "application/json;;", "application/json; charset",
		// no '/' in the type part, one inside the parameters; a bare type; parameters only
		"json; profile=\"http://example.com/p\"", "multipart; boundary=a/b", "text;encoding=utf-8/16", "json", "/", "/json", "application/", "; a=b/c"}
	for i := 0; i < 8; i++ {
		tpl := "/nowhere"
		if len(templates) > 0 && r.Chance(85) {
			tpl = Pick(r, templates)
		}
		target := regexp.MustCompile(`\{[^}]*\}`).ReplaceAllStringFunc(tpl, func(string) string { return Pick(r, seg) })
		if r.Chance(15) {
			target += Pick(r, []string{"/", "//", "/extra", "%"})
		}
		if r.Chance(12) {
			// one key both as a scalar and as a nested object (deepObject parameters)
			n := Pick(r, []string{"q", "id", "f", "a b", "ids[]", "*opts", "a(b", "$filter"})
			if strings.ContainsAny(n, "[]*($") {
				n = url.QueryEscape(n)
			}
			target += "?" + Pick(r, []string{
				n + "[a]=1&" + n + "[a][b]=2&" + n + "[c][0]=x&" + n + "[c]=y",
				n + "[ids][-1]=3&" + n + "[ids][0]=1", n + "[ids][5]=3", n + "[ids][99999999999999999999]=1", n + "[ids][x]=1&" + n + "[ids][1]=2",
				n + "[ids][1000000000]=1", n + "[v][123456789][v]=1", n + "[c][4294967296]=x&" + n + "[c][0]=y", n + "[ids][2147483647]=1&" + n + "[ids][0]=2",
				n + "[]=1", n + "[=1", n + "][=1", n + "[a][]=1&" + n + "[a][][b]=2", n + "[v][0][v]=1&" + n + "[v][1]=2"})
		} else if r.Chance(70) {
			var qs []string
			for k := 0; k < r.Intn(4); k++ {
				qs = append(qs, Pick(r, []string{"q", "id", "f", "q[x]", "q[x][y]", "a b", "", "%zz"})+Pick(r, []string{"=", "", "[]="})+Pick(r, seg))
			}
			if len(qs) > 0 && r.Chance(25) {
				// the same key again, with a value that is not JSON (parameters defined by content)
				k := strings.SplitN(qs[0], "=", 2)[0]
				qs = append(qs, k+"="+Pick(r, []string{"a", "b c", "{", "[1", "tru"}))
			}
			target += "?" + strings.Join(qs, Pick(r, []string{"&", ";", "&&"}))
		}
		method := Pick(r, []string{"GET", "POST", "PUT", "DELETE", "PATCH", "HEAD", "OPTIONS", "TRACE", "CONNECT", "PROPFIND", "get", "G T", ""})
		if ms := methodsOf[tpl]; len(ms) > 0 && r.Chance(75) {
			method = Pick(r, ms)
		}
		q := C10Req{Method: method,
			Target: target, Body: Pick(r, bodies), Status: Pick(r, []int{200, 201, 204, 299, 301, 304, 400, 404, 500, 599, 600, 0, -1, 99, 1000}),
			RBody: Pick(r, bodies), Multi: r.Bool(), Strict: r.Chance(40), ExclBody: r.Chance(10), RNoBody: r.Chance(6), Header: map[string][]string{}, RHeader: map[string][]string{}}
		if ct := Pick(r, cts); ct != "" {
			q.Header["Content-Type"] = []string{ct}
		}
		if r.Chance(15) {
			// a well-formed multipart upload (content type and body agree)
			q.Header["Content-Type"] = []string{"multipart/form-data; boundary=b"}
			q.Body = Pick(r, []string{"--b\r\nContent-Disposition: form-data; name=\"a\"\r\n\r\n1\r\n--b--\r\n",
				"--b\r\nContent-Disposition: form-data; name=\"a\"\r\n\r\nx\r\n--b\r\nContent-Disposition: form-data; name=\"k\"\r\n\r\ny\r\n--b--\r\n",
				// parts with a content type of their own: decoded by the decoder registered for it, under the property's schema
				"--b\r\nContent-Disposition: form-data; name=\"a\"\r\nContent-Type: application/x-www-form-urlencoded\r\n\r\nx=1&y=2\r\n--b--\r\n",
				"--b\r\nContent-Disposition: form-data; name=\"a\"\r\nContent-Type: multipart/form-data; boundary=c\r\n\r\n--c\r\nContent-Disposition: form-data; name=\"x\"\r\n\r\n1\r\n--c--\r\n\r\n--b--\r\n",
				"--b\r\nContent-Disposition: form-data; name=\"a\"\r\nContent-Type: application/json\r\n\r\n{\"x\":1}\r\n--b\r\nContent-Disposition: form-data; name=\"f\"; filename=\"f.bin\"\r\nContent-Type: application/octet-stream\r\n\r\n\x00\x01\r\n--b--\r\n",
				"--b\r\nContent-Disposition: form-data; name=\"a\"\r\nContent-Type: text/csv\r\n\r\n1,2\r\n--b\r\nContent-Disposition: form-data; name=\"a\"\r\nContent-Type: application/x-yaml\r\n\r\nx: 1\r\n--b--\r\n",
				// a part whose own content type is JSON and whose text is not (the error has no parameter to name)
				"--b\r\nContent-Disposition: form-data; name=\"a\"\r\nContent-Type: application/json\r\n\r\n{\"size\": \r\n--b--\r\n",
				"--b\r\nContent-Disposition: form-data; name=\"f\"\r\nContent-Type: application/json\r\n\r\n[1,\r\n--b\r\nContent-Disposition: form-data; name=\"a\"\r\n\r\n1\r\n--b--\r\n"})
		}
		if r.Chance(10) {
			// a YAML body whose values JSON cannot express (content type and body agree)
			q.Header["Content-Type"] = []string{Pick(r, []string{"application/x-yaml", "application/yaml"})}
			q.Body = Pick(r, []string{"1: x\n", "a:\n  2: z\n", "when: 2001-01-01\n", "n: 18446744073709551615\n", "a: 2001-01-01T10:00:00Z\nb: !!binary aGk=\n", "- {3: 4}\n", "a: .inf\n"})
		}
		if ct := Pick(r, cts); ct != "" {
			q.RHeader["Content-Type"] = []string{ct}
		}
		for k := 0; k < r.Intn(3); k++ {
			q.Header[Pick(r, []string{"X-H", "Cookie", "X-Key", "Content-Length", "id"})] = []string{Pick(r, append(seg, "f=1; q=2", "q", "=;=", "a b=1"))}
			q.RHeader[Pick(r, []string{"X-Rate", "x y", "Content-Type"})] = []string{Pick(r, seg), Pick(r, seg)}
		}
		c.Reqs = append(c.Reqs, q)
	}
	return c
}

// directed: one document whose operations take deepObject parameters (array, object, array-of-objects and
// free-form members; with and without additionalProperties), and every hostile index / bracket shape
// sent to each of them, alone and next to well-formed keys
func c10Directed() []C10Case {
	mk := func(name string, ap any) map[string]any {
		sch := jobj("type", "object", "properties", jobj(
			"ids", jobj("type", "array", "items", jobj("type", "integer")),
			"a", jobj("type", "object", "properties", jobj("b", jobj("type", "string"))),
			"c", jobj("type", "array", "items", jobj()),
			"v", jobj("type", "array", "items", jobj("type", "object", "properties", jobj("v", jobj("type", "integer"))))))
		if ap != nil {
			sch["additionalProperties"] = ap
		}
		return jobj("name", name, "in", "query", "style", "deepObject", "explode", true, "schema", sch)
	}
	resp := jobj("200", jobj("description", "ok"))
	doc := jobj("openapi", "3.0.3", "info", jobj("title", "t", "version", "1"), "paths", jobj(
		"/plain", jobj("get", jobj("parameters", []any{mk("f", nil)}, "responses", resp)),
		"/closed", jobj("get", jobj("parameters", []any{mk("f", false)}, "responses", resp)),
		"/open", jobj("get", jobj("parameters", []any{mk("f", jobj("type", "array", "items", jobj("type", "integer")))}, "responses", resp))))
	shapes := []string{"f[ids][-1]=5", "f[ids][-1]=5&f[ids][0]=1&f[ids][1]=2", "f[ids][0]=1&f[ids][-2]=7", "f[v][-1][v]=1", "f[v][0][v]=1&f[v][-1][v]=2", "f[c][-1]=x", "f[zz][-1]=1&f[zz][0]=2",
		"f[ids][+1]=5", "f[ids][01]=5&f[ids][1]=6", "f[ids][1e3]=5", "f[ids][0x1]=5", "f[ids][ 1]=5", "f[ids][9223372036854775807]=1", "f[ids][-9223372036854775808]=1",
		"f[ids][3]=1", "f[ids][12]=1&f[ids][0]=2", "f[ids][]=1", "f[ids][][]=1", "f[ids]=1&f[ids][0]=2", "f[a][b][c]=1", "f[a]=1", "f[a][b]=x&f[a][b][0]=y", "f[v][0]=1", "f[v][0][v][0]=1",
		"f[=1", "f]=1", "f[]=1", "f[[ids]]=1", "f[ids][0=1", "f[ids]0]=1", "f[ids][0]]=1", "f=1", "f", "f[ids][0]", "f[ids][0]=1&f[ids][0]=2"}
	var out []C10Case
	// parameters described by content, whose schema is not an array, given more than once
	{
		cp := func(name string, sch map[string]any) map[string]any {
			return jobj("name", name, "in", "query", "content", jobj("application/json", jobj("schema", sch)))
		}
		doc2 := jobj("openapi", "3.0.3", "info", jobj("title", "t", "version", "1"), "paths", jobj(
			"/c", jobj("get", jobj("parameters", []any{cp("tag", jobj("type", "string")), cp("obj", jobj("type", "object")), cp("any", jobj()),
				cp("arr", jobj("type", "array", "items", jobj("type", "integer")))}, "responses", resp))))
		var reqs []C10Req
		for _, q := range []string{"tag=a&tag=b", `tag=%22a%22&tag=%22b%22`, `obj=%7B%22a%22%3A1%7D&obj=%7B%22a%22%3A2%7D`, "obj=1&obj=2", "any=1&any=2", "any=&any=", "arr=1&arr=2", "arr=%5B1%5D&arr=%5B2%5D",
			"tag=&tag=", "tag", "tag&tag", "obj=%7B&obj=%7D"} {
			reqs = append(reqs, C10Req{Method: "GET", Target: "/c?" + q, Status: 200, Multi: len(reqs)%2 == 1})
		}
		out = append(out, C10Case{Doc: doc2, Reqs: reqs})
	}
	for _, path := range []string{"/plain", "/closed", "/open"} {
		var reqs []C10Req
		for _, q := range shapes {
			reqs = append(reqs, C10Req{Method: "GET", Target: path + "?" + strings.ReplaceAll(q, " ", "%20"), Status: 200, Multi: len(reqs)%2 == 1})
			if len(reqs) == 12 {
				out = append(out, C10Case{Doc: doc, Reqs: reqs})
				reqs = nil
			}
		}
		if len(reqs) > 0 {
			out = append(out, C10Case{Doc: doc, Reqs: reqs})
		}
	}
	return out
}

func init() {
	runners["C10child"] = func(seed uint64, n int, outDir string, replay string) {
		cases := loadReplayCases[C10Case](replay)
		// an application that once installed its own uniqueItems checker and restored the default the
		// documented way (nil) is a legal configuration of the library
		openapi3.RegisterArrayUniqueItemsChecker(nil)
		// hostile array indexes must not take the sandbox down: an allocation beyond 3 GiB of
		// address space is a fatal error of the child, reported as such
		lim := &syscall.Rlimit{Cur: 3 << 30, Max: 3 << 30}
		_ = syscall.Setrlimit(syscall.RLIMIT_AS, lim)
		for i := int(seed); i < len(cases); i++ {
			fmt.Printf("start %d\n", i)
			os.Stdout.Sync()
			wd := time.AfterFunc(10*time.Second, func() {
				fmt.Printf("done %d {\"panics\":[\"hang\"]}\n", i)
				os.Stdout.Sync()
				os.Exit(3)
			})
			o := c10One(&cases[i], func(p string) { fmt.Printf("phase %s\n", p); os.Stdout.Sync() })
			wd.Stop()
			b, _ := json.Marshal(o)
			fmt.Printf("done %d %s\n", i, b)
			os.Stdout.Sync()
		}
	}
	runners["C10"] = func(seed uint64, n int, outDir string, replay string) {
		var cases []C10Case
		if replay != "" {
			cases = loadReplayCases[C10Case](replay)
		} else {
			cases = append(loadCorpus[C10Case]("C10"), c10Directed()...)
			r := NewRng(seed)
			for i := 0; i < n; i++ {
				cases = append(cases, c10Random(r))
			}
		}
		meta := &Meta{Property: "C10", Seed: seed, Histogram: map[string]int{}, Shard: 1000,
			Rule: "seeded random documents (1-3 templated paths, 0-8 operations, parameters in all 13 (location, style, explode) cells or defined by content, hostile-but-legal schemas: exclusive flags without bounds, multipleOf 0, huge bounds, recursive component; request bodies of 10 media types with encodings; responses by code / class / default with headers by schema or by content; servers; security) that load and pass document validation x 8 requests each (13 methods incl. unknown and malformed, path segments and query strings from a hostile palette, 17 content types, 20 bodies incl. malformed JSON / form / multipart / deep nesting, hostile headers and cookies) x responses (15 status codes incl. out-of-range, hostile headers and bodies) through both routers, ValidateRequest, ValidateResponse, ConvertErrors, Error(), the middleware (strict and not); non-trivial = the document is valid; distinct by JSON of the case"}
		// the child works on LCase-shaped replay files: reuse the generic runner through JSON
		res := c10InChildren(cases, outDir)
		seen := map[string]bool{}
		for i := range cases {
			c := &cases[i]
			var o C10Obs
			txt := res[i]
			if strings.HasPrefix(txt, "fatal") {
				f := strings.Fields(txt)
				o.Panics = []string{"fatal:" + f[len(f)-1]}
			} else {
				json.Unmarshal([]byte(txt), &o)
			}
			meta.Cases = append(meta.Cases, map[string]any{"input": c, "go": o})
			if o.Skip != "" {
				meta.Histogram["skipped:"+o.Skip]++
				continue
			}
			key, _ := json.Marshal(c)
			if !seen[string(key)] {
				seen[string(key)] = true
				meta.Distinct++
			}
			meta.Histogram["valid documents"]++
			meta.Histogram["requests"] += o.Done
			meta.Histogram["routed (per router)"] += o.Routed
			meta.Histogram["requests accepted"] += o.ReqOK
			meta.Histogram["responses accepted"] += o.RespOK
			// a schema that reaches itself through allOf/anyOf/oneOf without consuming the value: unbounded
			// recursion in the parameter decoder and in VisitJSON (recorded finding; identified by the document's shape)
			cyc := c10UsesCycle(c)
			for pi, p := range o.Panics {
				if cyc && (p == "fatal:traffic" || p == "hang") {
					p += ":schema-reaches-itself-through-a-composition"
					o.Panics[pi] = p
				}
				meta.Histogram["panic:"+p]++
				meta.GoViolation = append(meta.GoViolation, map[string]any{"signature": p, "cases": []any{c}, "go_observation": o, "judgement": "panic / fatal error: " + p})
			}
		}
		if replay == "" {
			validationHandlerOracles(meta)
		}
		meta.NCases = len(cases)
		meta.Files, meta.Offsets = writeCasesInterned(outDir, "cases", "From KV Require Import Model.Base Exec.C10Exec.", "N", "judge_C10", nil, 1000)
		writeMeta(outDir, meta)
		fmt.Fprintf(os.Stderr, "C10: %d cases\n", len(cases))
	}
}

func c10InChildren(cases []C10Case, outDir string) map[int]string {
	// same protocol as runInChildren, for C10Case
	b, _ := json.Marshal(cases)
	var generic []LCase
	_ = b
	_ = generic
	return runChildrenRaw("C10child", len(cases), outDir, func(idx []int) []byte {
		var mine []C10Case
		for _, i := range idx {
			mine = append(mine, cases[i])
		}
		out, _ := json.Marshal(map[string]any{"cases": mine})
		return out
	})
}
