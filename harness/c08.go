package main

import (
	"bytes"
	"context"
	"encoding/json"
	"fmt"
	"io"
	"net/http"
	"net/http/httptest"
	"os"
	"sort"
	"strconv"
	"strings"

	"github.com/getkin/kin-openapi/openapi3"
	"github.com/getkin/kin-openapi/openapi3filter"
	"github.com/getkin/kin-openapi/routers"
	"github.com/getkin/kin-openapi/routers/gorillamux"
)

type C08Header struct {
	Name      string   `json:"name"`
	Required  bool     `json:"required"`
	ByContent bool     `json:"by_content"`       // defined by `content` instead of `schema`
	Type      string   `json:"type"`             // integer | string
	Format    string   `json:"format,omitempty"` // int32 (integers only)
	Max       *float64 `json:"max,omitempty"`
	Value     *string  `json:"value"` // nil = the response does not carry it
}

type C08Resp struct {
	Headers []C08Header         `json:"headers"`
	Content map[string]*GSchema `json:"content"` // nil schema value = media type without schema
}

type C08Case struct {
	Responses     map[string]C08Resp `json:"responses"`
	Method        string             `json:"method"`
	Status        int                `json:"status"`
	CT            string             `json:"ct"`
	Body          string             `json:"body"`
	IncludeStatus bool               `json:"include_status"`
	ExclBody      bool               `json:"excl_body"`
	ExclWO        bool               `json:"excl_wo"`
	Multi         bool               `json:"multi"`
}

type C08Obs struct {
	Class  int    `json:"class"`
	Kind   int    `json:"kind"`
	Reason string `json:"reason,omitempty"`
	BodyOK bool   `json:"body_readable"`
	Panic  string `json:"panic,omitempty"`
}

func (h *C08Header) gschema() *GSchema {
	g := &GSchema{HasTypes: true, Types: strings.Split(h.Type, "|"), Format: h.Format} // "integer|string": a list of types
	g.Max = h.Max
	return g
}

func c08Build(c *C08Case) *routers.Route {
	doc := &openapi3.T{OpenAPI: "3.0.0", Info: &openapi3.Info{Title: "t", Version: "1"}, Paths: openapi3.NewPaths()}
	op := openapi3.NewOperation()
	op.Responses = &openapi3.Responses{}
	for code, r := range c.Responses {
		desc := "d"
		resp := &openapi3.Response{Description: &desc}
		if len(r.Headers) > 0 {
			resp.Headers = openapi3.Headers{}
		}
		for _, h := range r.Headers {
			hd := &openapi3.Header{Parameter: openapi3.Parameter{Required: h.Required}}
			if h.ByContent {
				hd.Content = openapi3.NewContentWithJSONSchema(h.gschema().ToOpenAPI())
			} else {
				hd.Schema = h.gschema().ToOpenAPI().NewRef()
			}
			resp.Headers[h.Name] = &openapi3.HeaderRef{Value: hd}
		}
		if r.Content != nil {
			resp.Content = openapi3.Content{}
			for mt, g := range r.Content {
				m := openapi3.NewMediaType()
				if g != nil {
					m.Schema = g.ToOpenAPI().NewRef()
				}
				resp.Content[mt] = m
			}
		}
		op.Responses.Set(code, &openapi3.ResponseRef{Value: resp})
	}
	item := &openapi3.PathItem{Get: op, Head: op}
	doc.Paths.Set("/r", item)
	return &routers.Route{Spec: doc, Path: "/r", PathItem: item, Method: c.Method, Operation: op}
}

var c08Kinds = []struct {
	prefix string
	kind   int
}{
	{"status is not supported", 1}, {"unable to decode header", 2}, {"response header ", 0}, {"response header Content-Type has unexpected value", 5},
	{"failed to decode response body", 6}, {"response body doesn't match schema", 7},
}

func c08Kind(reason string) int {
	switch {
	case reason == "status is not supported":
		return 1
	case strings.HasPrefix(reason, "unable to decode header"):
		return 2
	case strings.HasPrefix(reason, "response header Content-Type has unexpected value"):
		return 5
	case strings.HasPrefix(reason, "response header ") && strings.HasSuffix(reason, "doesn't match schema"):
		return 3
	case strings.HasPrefix(reason, "response header ") && strings.HasSuffix(reason, "missing"):
		return 4
	case strings.HasPrefix(reason, "failed to decode response body"):
		return 6
	case strings.HasPrefix(reason, "response body doesn't match schema"):
		return 7
	}
	return 99
}

func runC08(c *C08Case) C08Obs {
	var o C08Obs
	route := c08Build(c)
	req := httptest.NewRequest(c.Method, "/r", nil)
	hdr := http.Header{}
	if c.CT != "" {
		hdr.Set("Content-Type", c.CT)
	}
	if r, ok := c08Selected(c); ok {
		for _, h := range r.Headers {
			if h.Value != nil {
				hdr.Set(h.Name, *h.Value)
			}
		}
	}
	opts := &openapi3filter.Options{IncludeResponseStatus: c.IncludeStatus, ExcludeResponseBody: c.ExclBody, ExcludeWriteOnlyValidations: c.ExclWO, MultiError: c.Multi}
	in := &openapi3filter.ResponseValidationInput{
		RequestValidationInput: &openapi3filter.RequestValidationInput{Request: req, Route: route, Options: opts},
		Status:                 c.Status, Header: hdr, Body: io.NopCloser(strings.NewReader(c.Body)), Options: opts}
	var err error
	if p := catchPanic(func() { err = openapi3filter.ValidateResponse(context.Background(), in) }); p != nil {
		o.Panic = fmt.Sprint(p)
		o.Class = 2
	} else if err != nil {
		o.Class = 1
		if re, ok := err.(*openapi3filter.ResponseError); ok {
			o.Reason = re.Reason
			o.Kind = c08Kind(re.Reason)
		} else {
			o.Kind = 98
		}
	}
	if in.Body != nil {
		b, rerr := io.ReadAll(in.Body)
		o.BodyOK = rerr == nil && bytes.Equal(b, []byte(c.Body))
	}
	return o
}

// the response definition the harness populates header values for: any definition works for the
// request side, so use the union of header names over all definitions (same value everywhere)
func c08Selected(c *C08Case) (C08Resp, bool) {
	var all C08Resp
	seen := map[string]bool{}
	keys := make([]string, 0, len(c.Responses))
	for k := range c.Responses {
		keys = append(keys, k)
	}
	sort.Strings(keys)
	for _, k := range keys {
		for _, h := range c.Responses[k].Headers {
			if !seen[h.Name] {
				seen[h.Name] = true
				all.Headers = append(all.Headers, h)
			}
		}
	}
	return all, true
}

// encoding/json as an oracle on the body bytes
func c08ParseJSON(body string) (any, bool) {
	var v any
	dec := json.NewDecoder(strings.NewReader(body))
	dec.UseNumber()
	if err := dec.Decode(&v); err != nil {
		return nil, false
	}
	// a JSON text is one value, white space aside: anything after it makes the body undecodable
	var extra any
	if err := dec.Decode(&extra); err != io.EOF {
		return nil, false
	}
	return normJSON(v), true
}

func c08Coq(c *C08Case, o *C08Obs) string {
	hdrValue := map[string]*string{}
	sel, _ := c08Selected(c)
	for _, h := range sel.Headers {
		hdrValue[h.Name] = h.Value
	}
	var sc SCase // to collect regexp/format oracles over all schemas (none used by headers)
	keys := make([]string, 0, len(c.Responses))
	for k := range c.Responses {
		keys = append(keys, k)
	}
	sort.Strings(keys)
	body, bodyOK := c08ParseJSON(c.Body)
	var comp, mat, fmts []string
	var defs []string
	for _, k := range keys {
		r := c.Responses[k]
		hs := append([]C08Header{}, r.Headers...)
		sort.Slice(hs, func(i, j int) bool { return hs[i].Name < hs[j].Name })
		var hterms []string
		for _, h := range hs {
			if h.Name == "Content-Type" {
				continue
			}
			schema := "None"
			if !h.ByContent {
				schema = "(Some " + h.gschema().Coq() + ")"
			}
			val := hdrValue[h.Name]
			found := val != nil
			decoded := "None"
			if found {
				// the text read at the declared type; with a list of types, at the first one that can read it
			types:
				for _, t := range strings.Split(h.Type, "|") {
					switch t {
					case "integer":
						bits := 64
						if h.Format == "int32" {
							bits = 32
						}
						if n, err := strconv.ParseInt(*val, 0, bits); err == nil {
							decoded = "(Some " + coqJSON(float64(n)) + ")"
							break types
						}
					case "boolean":
						if *val == "true" || *val == "false" {
							decoded = "(Some " + coqJSON(*val == "true") + ")"
							break types
						}
					default:
						decoded = "(Some " + coqJSON(*val) + ")"
						break types
					}
				}
			}
			hterms = append(hterms, fmt.Sprintf("mkHdr %s %s %s %s %s", coqStr(h.Name), coqBool(h.Required), schema, coqBool(found), decoded))
		}
		mts := make([]string, 0, len(r.Content))
		for mt := range r.Content {
			mts = append(mts, mt)
		}
		sort.Strings(mts)
		var cterms []string
		for _, mt := range mts {
			g := r.Content[mt]
			ms := "None"
			if g != nil {
				ms = "(Some " + g.Coq() + ")"
				for _, val := range []any{body, c.Body} {
					sc = SCase{Schema: g, Value: val}
					a, b, f := schemaOracles(&sc)
					comp, mat, fmts = append(comp, a...), append(mat, b...), append(fmts, f...)
				}
			}
			cterms = append(cterms, fmt.Sprintf("(%s, mkMedia %s)", coqStr(mt), ms))
		}
		defs = append(defs, fmt.Sprintf("(%s, mkRDef %s %s)", coqStr(k), coqList(hterms), coqList(cterms)))
	}
	bodyTerm := "None"
	if bodyOK {
		bodyTerm = "(Some " + coqJSON(body) + ")"
	}
	status := c.Status
	return fmt.Sprintf("mkC08 (mkVOpts %s %s %s %s) %s %d%%N %s %s %s %s %s %s %s %d%%N %d%%N %s",
		coqBool(c.IncludeStatus), coqBool(c.ExclBody), coqBool(c.ExclWO), coqBool(c.Multi), coqBool(c.Method == "HEAD"), status,
		coqList(defs), coqStr(c.CT), coqStr(c.Body), bodyTerm, coqList(comp), coqList(mat), coqList(fmts), o.Class, o.Kind, coqBool(o.BodyOK))
}

var c08Codes = []string{"200", "201", "2XX", "404", "4XX", "5XX", "default", "301", "1XX", "3XX"}
var c08Statuses = []int{200, 201, 204, 299, 300, 301, 304, 307, 308, 399, 400, 404, 499, 500, 503, 599, 100, 199, 99, 600, 0, 1000}
var c08CTs = []string{"application/json", "application/json", "application/json; charset=utf-8", "application/json ;x=1", "application/problem+json", "text/plain", "text/plain; charset=utf-8",
	"application/xml", "", "application", "text/html", "APPLICATION/JSON", "application/hal+json",
	"application/json; charset=utf-8; profile=demo", "text/plain;a=1;b=2", "application/problem+json; v=1; q=2"}
var c08Keys = []string{"application/json", "application/json", "application/*", "*/*", "text/plain", "application/problem+json", "text/*", "application/json; charset=utf-8"}

func c08RandBodySchema(r *Rng) *GSchema {
	if r.Chance(15) {
		return nil
	}
	g := randSchema(r, 2, SchemaGenOpts{ReadOnly: true})
	if r.Chance(60) {
		// an object with write-only / read-only members, the heart of the response reading
		g = &GSchema{HasTypes: true, Types: []string{"object"}, Props: map[string]*GSchema{}}
		for _, k := range []string{"a", "b", "c"} {
			if r.Chance(70) {
				p := randSchema(r, 1, SchemaGenOpts{})
				switch r.Intn(4) {
				case 0:
					p.WriteOnly = true
				case 1:
					p.ReadOnly = true
				}
				g.Props[k] = p
				if r.Chance(40) {
					g.Required = append(g.Required, k)
				}
			}
		}
	}
	return g
}

func c08Random(r *Rng) C08Case {
	c := C08Case{Responses: map[string]C08Resp{}, Method: "GET", IncludeStatus: r.Chance(40), ExclBody: r.Chance(10), ExclWO: r.Chance(25), Multi: r.Chance(30)}
	if r.Chance(8) {
		c.Method = "HEAD"
	}
	n := r.Intn(4)
	if r.Chance(90) && n == 0 {
		n = 1
	}
	hdrVals := map[string]*string{}
	for _, name := range []string{"X-A", "X-B"} {
		if r.Chance(65) {
			v := Pick(r, []string{"5", "7", "abc", "12", "0", "2147483647", "2147483648", "-2147483649", "4294967297"})
			hdrVals[name] = &v
		}
	}
	for i := 0; i < n; i++ {
		var resp C08Resp
		for _, name := range []string{"X-A", "X-B"} {
			if r.Chance(40) {
				h := C08Header{Name: name, Required: r.Bool(), Type: Pick(r, []string{"integer", "integer", "string"}), Value: hdrVals[name], ByContent: r.Chance(4)}
				if r.Chance(40) {
					h.Max = fp(6)
				}
				if h.Type == "integer" && r.Chance(35) {
					h.Format = "int32"
				}
				resp.Headers = append(resp.Headers, h)
			}
		}
		if r.Chance(85) {
			resp.Content = map[string]*GSchema{}
			k := 1 + r.Intn(3)
			for j := 0; j < k; j++ {
				resp.Content[Pick(r, c08Keys)] = c08RandBodySchema(r)
			}
		}
		c.Responses[Pick(r, c08Codes)] = resp
	}
	c.Status = Pick(r, c08Statuses)
	if r.Chance(50) {
		// aim at a declared code
		for _, k := range sortedKeys(c.Responses) {
			if n, err := strconv.Atoi(k); err == nil {
				c.Status = n
			} else if len(k) == 3 && k[1] == 'X' {
				c.Status = int(k[0]-'0')*100 + r.Intn(100)
			}
			break
		}
	}
	c.CT = Pick(r, c08CTs)
	// a body aimed at one of the schemas
	var target *GSchema
	for _, rk := range sortedKeys(c.Responses) {
		resp := c.Responses[rk]
		for _, ck := range sortedKeys(resp.Content) {
			if g := resp.Content[ck]; g != nil {
				target = g
			}
		}
	}
	val := valueFor(r, target, 2)
	if r.Chance(35) {
		val = mutateValue(r, val)
	}
	b, _ := json.Marshal(normJSON(val))
	c.Body = string(b)
	switch r.Intn(12) {
	case 0:
		c.Body = ""
	case 1:
		c.Body = `{"a":`
	case 2:
		c.Body = "plain text"
	case 3:
		// a JSON value followed by something else: not a JSON text (white space alone is fine)
		c.Body += Pick(r, []string{" trailing", "{}", " 1", "]", "}", " }", "\n", " \t\n"})
	}
	return c
}

func c08Directed() []C08Case {
	S := func(s string) *string { return &s }
	obj := &GSchema{HasTypes: true, Types: []string{"object"}, Required: []string{"id", "secret"}, Props: map[string]*GSchema{
		"id": {HasTypes: true, Types: []string{"integer"}}, "secret": {HasTypes: true, Types: []string{"string"}, WriteOnly: true},
		"ro": {HasTypes: true, Types: []string{"string"}, ReadOnly: true}}}
	base := map[string]C08Resp{
		"200":     {Headers: []C08Header{{Name: "X-A", Required: true, Type: "integer", Max: fp(6), Value: S("5")}}, Content: map[string]*GSchema{"application/json": obj}},
		"4XX":     {Content: map[string]*GSchema{"text/plain": {HasTypes: true, Types: []string{"string"}, MaxLen: up(5)}, "*/*": nil}},
		"default": {Content: map[string]*GSchema{"application/*": {HasTypes: true, Types: []string{"array"}}}},
	}
	var out []C08Case
	add := func(status int, ct, body string, f func(c *C08Case)) {
		c := C08Case{Responses: base, Method: "GET", Status: status, CT: ct, Body: body}
		if f != nil {
			f(&c)
		}
		out = append(out, c)
	}
	add(200, "application/json", `{"id":1}`, nil)
	add(200, "application/json", `{"id":1,"secret":"x"}`, nil)
	add(200, "application/json", `{"id":1,"secret":"x"}`, func(c *C08Case) { c.ExclWO = true })
	add(200, "application/json", `{"id":1,"ro":"r"}`, nil)
	add(200, "application/json", `{"id":"x"}`, nil)
	add(200, "application/json", `{"id":"x"}`, func(c *C08Case) { c.ExclBody = true })
	// schemas without any `type`: a write-only member is still a constraint (the schema is not the empty schema)
	woBare := &GSchema{Props: map[string]*GSchema{"password": {WriteOnly: true}, "n": {}}}
	woWrap := &GSchema{HasTypes: true, Types: []string{"object"}, Props: map[string]*GSchema{"cred": woBare, "id": {HasTypes: true, Types: []string{"integer"}}}}
	woAllOf := &GSchema{AllOf: []*GSchema{{HasTypes: true, Types: []string{"object"}}, {Props: map[string]*GSchema{"password": {WriteOnly: true}}}}}
	for _, sc := range []*GSchema{woBare, woWrap, woAllOf} {
		sc := sc
		for _, body := range []string{`{"password":"x"}`, `{"n":1}`, `{"cred":{"password":"x"},"id":1}`, `{"cred":{"n":1}}`, `{}`} {
			add(200, "application/json", body, func(c *C08Case) {
				c.Responses = map[string]C08Resp{"200": {Content: map[string]*GSchema{"application/json": sc}}}
			})
		}
	}
	// string lengths count characters, not bytes of the UTF-8 encoding: bodies and headers at the bound
	for _, tc := range []struct {
		text     string
		min, max uint64
	}{{"Zürich", 0, 6}, {"Zürich", 0, 5}, {"Zürich", 6, 6}, {"Zürich", 7, 9}, {"éé", 3, 9}, {"éé", 2, 2}, {"日本語", 0, 3}, {"日本語", 4, 9}, {"abc", 3, 3}, {"𝄞𝄞", 0, 2}, {"𝄞𝄞", 3, 9}, {"𝄞𝄞", 2, 2}} {
		tc := tc
		str := &GSchema{HasTypes: true, Types: []string{"string"}, MinLen: tc.min, MaxLen: up(tc.max)}
		add(200, "application/json; charset=utf-8", `{"name":"`+tc.text+`"}`, func(c *C08Case) {
			c.Responses = map[string]C08Resp{"2XX": {Content: map[string]*GSchema{"application/json": {HasTypes: true, Types: []string{"object"}, Required: []string{"name"}, Props: map[string]*GSchema{"name": str}}}}}
		})
		add(200, "text/plain; charset=utf-8", tc.text, func(c *C08Case) {
			c.Responses = map[string]C08Resp{"200": {Content: map[string]*GSchema{"text/plain": str}}}
		})
	}
	add(200, "application/json; charset=utf-8", `{"id":1}`, nil)
	add(200, "text/plain", `{"id":1}`, nil)
	add(200, "", `{"id":1}`, nil)
	add(200, "application/json", `{"id":`, nil)
	add(201, "application/json", `[1]`, nil)
	add(201, "application/json", `{}`, nil)
	add(201, "text/plain", `x`, nil)
	add(404, "text/plain", "short", nil)
	add(404, "text/plain", "too long", nil)
	add(404, "text/html", "a,b", nil)
	add(404, "", "a,b", nil)
	add(499, "text/plain; charset=utf-8", "abc", nil)
	add(600, "application/json", `{}`, nil)
	add(99, "application/json", `[]`, nil)
	add(304, "application/json", `garbage`, nil)
	add(301, "application/json", `garbage`, nil)
	add(307, "application/json", `garbage`, nil)
	add(308, "application/json", `garbage`, nil)
	add(200, "application/json", `garbage`, func(c *C08Case) { c.Method = "HEAD" })
	for _, v := range []*string{nil, S("7"), S("abc"), S("5")} {
		v := v
		add(200, "application/json", `{"id":1}`, func(c *C08Case) {
			r := c.Responses["200"]
			c.Responses = map[string]C08Resp{"200": {Headers: []C08Header{{Name: "X-A", Required: true, Type: "integer", Max: fp(6), Value: v}}, Content: r.Content}}
		})
		add(200, "application/json", `{"id":1}`, func(c *C08Case) {
			r := c.Responses["200"]
			c.Responses = map[string]C08Resp{"200": {Headers: []C08Header{{Name: "X-A", Required: false, Type: "integer", Max: fp(6), Value: v}}, Content: r.Content}}
		})
	}
	add(200, "application/json", `{"id":1}`, func(c *C08Case) {
		c.Responses = map[string]C08Resp{"200": {Headers: []C08Header{{Name: "X-A", ByContent: true, Type: "integer", Value: S("5")}}}}
	})
	// a header whose schema lists two types: the text is read as the first type that can read it
	for _, tv := range [][2]string{{"integer|string", "unlimited"}, {"integer|string", "5"}, {"integer|string", "7"}, {"string|integer", "7"}, {"boolean|integer", "7"}, {"integer|boolean", "true"}} {
		tv := tv
		add(200, "application/json", `{"id":1}`, func(c *C08Case) {
			r := c.Responses["200"]
			c.Responses = map[string]C08Resp{"200": {Headers: []C08Header{{Name: "X-A", Required: true, Type: tv[0], Max: fp(6), Value: S(tv[1])}}, Content: r.Content}}
		})
	}
	add(418, "application/json", `{}`, func(c *C08Case) { c.Responses = map[string]C08Resp{"200": base["200"]}; c.IncludeStatus = true })
	add(418, "application/json", `{}`, func(c *C08Case) { c.Responses = map[string]C08Resp{"200": base["200"]} })
	add(200, "application/json", `{}`, func(c *C08Case) { c.Responses = map[string]C08Resp{}; c.IncludeStatus = true })
	return out
}

func init() {
	runners["C08"] = func(seed uint64, n int, outDir string, replay string) {
		var cases []C08Case
		if replay != "" {
			cases = loadReplayCases[C08Case](replay)
		} else {
			cases = append(loadCorpus[C08Case]("C08"), c08Directed()...)
			r := NewRng(seed)
			for i := 0; i < n; i++ {
				cases = append(cases, c08Random(r))
			}
		}
		meta := &Meta{Property: "C08", Seed: seed, Histogram: map[string]int{}, Shard: 500,
			Rule: "directed status/content-type/header/body table + seeded random response maps (exact codes, class patterns, default; 0-2 headers; 1-3 media types with random schemas incl. readOnly/writeOnly members) x statuses x content types x bodies x options; non-trivial = a response definition is selected; distinct by JSON of the case"}
		seen := map[string]bool{}
		var terms []string
		for i := range cases {
			c := &cases[i]
			o := runC08(c)
			terms = append(terms, c08Coq(c, &o))
			meta.Cases = append(meta.Cases, map[string]any{"input": c, "go": o})
			key, _ := json.Marshal(c)
			if len(c.Responses) > 0 && !seen[string(key)] {
				seen[string(key)] = true
				meta.Distinct++
			}
			meta.Histogram[fmt.Sprintf("class=%d", o.Class)]++
			meta.Histogram[fmt.Sprintf("kind=%d", o.Kind)]++
			meta.Histogram[fmt.Sprintf("status_class=%dxx", c.Status/100)]++
			if !o.BodyOK {
				meta.Histogram["body_not_readable"]++
			}
		}
		if replay == "" {
			c08HeaderSpellings(meta)

			c08FormResponses(meta)
			c08StatusSent(meta)
		}
		meta.NCases = len(cases)
		meta.Files = writeCases(outDir, "From KV Require Import Model.Base Model.Json Model.Schema Model.Lookup Model.Response Exec.C08Exec.", "c08case", "judge", terms, meta.Shard)
		writeMeta(outDir, meta)
		fmt.Fprintf(os.Stderr, "C08: %d cases\n", len(cases))
	}
}

// Response headers whose declared name is not in canonical MIME form, for every shape of header
// schema (Go side): the declared header is the one looked up in the response, whatever its spelling
// in the document - present and valid passes, absent but required fails, present and violating fails.
func c08HeaderSpellings(meta *Meta) {
	// a response header definition named Content-Type - in any spelling: header names are
	// case-insensitive - is ignored (OpenAPI 3.0.3, Response Object, headers)
	for _, spelling := range []string{"Content-Type", "content-type", "CONTENT-TYPE", "Content-type"} {
		for _, required := range []bool{true, false} {
			never := openapi3.NewStringSchema().WithEnum("no such media type")
			hd := &openapi3.Header{Parameter: openapi3.Parameter{Required: required, Schema: never.NewRef()}}
			desc := "ok"
			resp := &openapi3.Response{Description: &desc, Headers: openapi3.Headers{spelling: &openapi3.HeaderRef{Value: hd}},
				Content: openapi3.NewContentWithJSONSchema(openapi3.NewObjectSchema())}
			op := openapi3.NewOperation()
			op.Responses = openapi3.NewResponses()
			op.Responses.Set("200", &openapi3.ResponseRef{Value: resp})
			item := &openapi3.PathItem{Get: op}
			doc := &openapi3.T{OpenAPI: "3.0.0", Info: &openapi3.Info{Title: "t", Version: "1"}, Paths: openapi3.NewPaths()}
			route := &routers.Route{Spec: doc, Path: "/h", PathItem: item, Method: "GET", Operation: op}
			hdr := http.Header{}
			hdr.Set("Content-Type", "application/json")
			in := &openapi3filter.ResponseValidationInput{RequestValidationInput: &openapi3filter.RequestValidationInput{Request: httptest.NewRequest("GET", "/h", nil), Route: route},
				Status: 200, Header: hdr, Body: io.NopCloser(strings.NewReader("{}")), Options: &openapi3filter.Options{IncludeResponseStatus: true}}
			var err error
			pn := catchPanic(func() { err = openapi3filter.ValidateResponse(context.Background(), in) })
			meta.Histogram["header spellings"]++
			c := map[string]any{"header_definition": spelling, "required": required, "response": "Content-Type: application/json, body {}"}
			if pn != nil {
				meta.GoViolation = append(meta.GoViolation, map[string]any{"signature": "header-spelling:panic", "cases": []any{c}, "go_observation": fmt.Sprint(pn), "judgement": "ValidateResponse panicked"})
			} else if err != nil {
				meta.GoViolation = append(meta.GoViolation, map[string]any{"signature": "header-spelling:content-type-definition-not-ignored", "cases": []any{c}, "go_observation": err.Error(),
					"judgement": "a response header definition named " + spelling + " was applied to the response's Content-Type"})
			}
		}
	}
	intS := openapi3.NewIntegerSchema().WithMax(6)
	arrS := openapi3.NewArraySchema().WithItems(openapi3.NewIntegerSchema()).WithMaxItems(2)
	objS := openapi3.NewObjectSchema().WithProperty("limit", openapi3.NewIntegerSchema().WithMax(6)).WithProperty("left", openapi3.NewIntegerSchema())
	objS.Required = []string{"limit"}
	shapes := []struct {
		name      string
		schema    *openapi3.Schema
		good, bad string
	}{{"integer", intS, "5", "7"}, {"array", arrS, "1,2", "1,2,3"}, {"object", objS, "limit,5,left,3", "limit,7,left,3"}}
	for _, spelling := range []string{"X-Rate-Limits", "x-rate-limits", "X-rate-limits", "x-Rate-Limits"} {
		for _, sh := range shapes {
			for _, required := range []bool{true, false} {
				for _, state := range []string{"good", "bad", "absent", "other-explode"} {
					for _, explode := range []*bool{nil, openapi3.BoolPtr(false), openapi3.BoolPtr(true)} {
						// explode written out: an object header is name,value,... without it and name=value,... with it
						good, bad, other := sh.good, sh.bad, ""
						if sh.name == "object" {
							other = "limit=5,left=3"
							if explode != nil && *explode {
								good, bad, other = "limit=5,left=3", "limit=7,left=3", "limit,5,left,3"
							}
						}
						if state == "other-explode" && other == "" {
							continue
						}
						hd := &openapi3.Header{Parameter: openapi3.Parameter{Required: required, Explode: explode, Schema: sh.schema.NewRef()}}
						desc := "ok"
						resp := &openapi3.Response{Description: &desc, Headers: openapi3.Headers{spelling: &openapi3.HeaderRef{Value: hd}}}
						op := openapi3.NewOperation()
						op.Responses = openapi3.NewResponses()
						op.Responses.Set("200", &openapi3.ResponseRef{Value: resp})
						item := &openapi3.PathItem{Get: op}
						doc := &openapi3.T{OpenAPI: "3.0.0", Info: &openapi3.Info{Title: "t", Version: "1"}, Paths: openapi3.NewPaths()}
						route := &routers.Route{Spec: doc, Path: "/h", PathItem: item, Method: "GET", Operation: op}
						hdr := http.Header{}
						switch state {
						case "good":
							hdr.Set(spelling, good)
						case "bad":
							hdr.Set(spelling, bad)
						case "other-explode":
							hdr.Set(spelling, other)
						}
						req := httptest.NewRequest("GET", "/h", nil)
						in := &openapi3filter.ResponseValidationInput{RequestValidationInput: &openapi3filter.RequestValidationInput{Request: req, Route: route},
							Status: 200, Header: hdr, Body: io.NopCloser(strings.NewReader("")), Options: &openapi3filter.Options{IncludeResponseStatus: true}}
						var err error
						pn := catchPanic(func() { err = openapi3filter.ValidateResponse(context.Background(), in) })
						want := state == "good" || (state == "absent" && !required)
						meta.Histogram["header spellings"]++
						c := map[string]any{"header": spelling, "schema": sh.name, "required": required, "response_carries": state, "explode": explode}
						if pn != nil {
							meta.GoViolation = append(meta.GoViolation, map[string]any{"signature": "header-spelling:panic", "cases": []any{c}, "go_observation": fmt.Sprint(pn), "judgement": "ValidateResponse panicked"})
						} else if (err == nil) != want {
							meta.GoViolation = append(meta.GoViolation, map[string]any{"signature": "header-spelling:verdict", "cases": []any{c}, "go_observation": fmt.Sprint(err),
								"judgement": fmt.Sprintf("a %s %s header declared as %q (required=%v): accepted=%v", state, sh.name, spelling, required, err == nil)})
						}
					}
				}
			}
		}
	}
}

// the status a response is checked under is the status that was sent: the first WriteHeader (or the implicit
// 200 of a first Write) - later calls change nothing on the wire and nothing in the choice of the definition
func c08StatusSent(meta *Meta) {
	text := `{"openapi":"3.0.3","info":{"title":"t","version":"1"},"paths":{"/r":{"get":{"responses":{` +
		`"200":{"description":"ok","content":{"application/json":{"schema":{"type":"object","required":["id"],"properties":{"id":{"type":"integer"}}}}}},` +
		`"4XX":{"description":"client","content":{"application/json":{"schema":{"type":"object","required":["error"]}}}},` +
		`"500":{"description":"no body"}}}}}}`
	doc, err := openapi3.NewLoader().LoadFromData([]byte(text))
	if err != nil {
		return
	}
	router, err := gorillamux.NewRouter(doc)
	if err != nil {
		return
	}
	for _, tc := range []struct {
		name      string
		calls     []int // WriteHeader calls before the body; 0 = no explicit call
		after     []int // WriteHeader calls after the body
		body      string
		wantValid bool
		wantCode  int
	}{
		{"200 good", []int{200}, nil, `{"id":1}`, true, 200}, {"200 bad", []int{200}, nil, `{"id":"x"}`, false, 200},
		{"200 bad then 500", []int{200, 500}, nil, `{"id":"x"}`, false, 200}, {"200 good then 404", []int{200, 404}, nil, `{"id":1}`, true, 200},
		{"implicit 200 bad, 500 after the body", nil, []int{500}, `{"id":"x"}`, false, 200}, {"implicit 200 good, 404 after the body", nil, []int{404}, `{"id":1}`, true, 200},
		{"404 good", []int{404}, nil, `{"error":"e"}`, true, 404}, {"404 then 200", []int{404, 200}, nil, `{"id":1}`, false, 404},
	} {
		for _, strict := range []bool{false, true} {
			var logged []string
			v := openapi3filter.NewValidator(router, openapi3filter.Strict(strict), openapi3filter.OnLog(func(_ context.Context, msg string, err error) { logged = append(logged, msg) }))
			h := http.HandlerFunc(func(w http.ResponseWriter, _ *http.Request) {
				w.Header().Set("Content-Type", "application/json")
				for _, c := range tc.calls {
					w.WriteHeader(c)
				}
				w.Write([]byte(tc.body))
				for _, c := range tc.after {
					w.WriteHeader(c)
				}
			})
			rec := httptest.NewRecorder()
			desc := map[string]any{"handler": tc.name, "strict": strict}
			meta.Histogram["status-sent cases"]++
			if p := catchPanic(func() { v.Middleware(h).ServeHTTP(rec, httptest.NewRequest("GET", "/r", nil)) }); p != nil {
				meta.GoViolation = append(meta.GoViolation, map[string]any{"signature": "status-sent:panic", "cases": []any{desc}, "go_observation": fmt.Sprint(p), "judgement": "panic"})
				continue
			}
			invalid := false
			for _, m := range logged {
				if strings.Contains(m, "invalid response") {
					invalid = true
				}
			}
			if strict {
				invalid = rec.Code == 500 && tc.wantCode != 500
			}
			if invalid == tc.wantValid {
				meta.GoViolation = append(meta.GoViolation, map[string]any{"signature": "status-sent:response-checked-under-another-status", "cases": []any{desc},
					"go_observation": fmt.Sprintf("reported invalid=%v, client status %d, log %v", invalid, rec.Code, logged),
					"judgement":      fmt.Sprintf("the response sent (status %d) satisfies its definition: %v", tc.wantCode, tc.wantValid)})
			}
		}
	}
}
