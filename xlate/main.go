// Translators: regenerate coq/Gen/*.v tables from /repo's working tree (go/ast, stdlib only).
package main

import (
	"flag"
	"fmt"
	"os"
	"strings"
)

var tables = map[string]func(repo string) (string, error){}

func main() {
	table := flag.String("table", "", "table name")
	repo := flag.String("repo", "/repo", "repository root")
	out := flag.String("out", "", "output .v file")
	flag.Parse()
	f, ok := tables[*table]
	if !ok {
		fmt.Fprintln(os.Stderr, "unknown table", *table)
		os.Exit(2)
	}
	src, err := f(*repo)
	if err != nil {
		fmt.Fprintln(os.Stderr, "xlate", *table, "failed:", err)
		os.Exit(1)
	}
	if err := os.WriteFile(*out, []byte(src), 0o644); err != nil {
		fmt.Fprintln(os.Stderr, err)
		os.Exit(1)
	}
	fmt.Printf("xlate %s: %d bytes\n", *table, len(src))
}

func coqStr(s string) string {
	plain := true
	for i := 0; i < len(s); i++ {
		if s[i] < 32 || s[i] > 126 {
			plain = false
		}
	}
	if plain {
		return `"` + strings.ReplaceAll(s, `"`, `""`) + `"`
	}
	var b strings.Builder
	b.WriteString("(bs [")
	for i := 0; i < len(s); i++ {
		if i > 0 {
			b.WriteString(";")
		}
		fmt.Fprintf(&b, "%d", s[i])
	}
	b.WriteString("]%N)")
	return b.String()
}
func coqList(items []string) string { return "[" + strings.Join(items, "; ") + "]" }
