module verifxlate

go 1.22.5
