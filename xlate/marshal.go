package main

// Table "Marshal": for every struct type of openapi3/ and openapi2/ that has a hand-written
// marshaller and an UnmarshalJSON using the `delete(x.Extensions, key)` idiom: the JSON keys of its
// struct tags, the keys its marshaller writes (and whether conditionally), the keys its unmarshaller
// removes from the extension map.

import (
	"fmt"
	"go/ast"
	"go/parser"
	"go/token"
	"os"
	"path/filepath"
	"reflect"
	"sort"
	"strconv"
	"strings"
)

type tyInfo struct {
	pkg, name string
	tags      []string // json keys of tagged fields
	omit      map[string]bool
	marshal   []string
	cond      map[string]bool
	condNil   map[string]bool // the condition is a nil test (pointer / interface field): kept whenever present
	deleted   []string
	hasM, hasU bool
}

func recvTypeName(fd *ast.FuncDecl) string {
	if fd.Recv == nil || len(fd.Recv.List) == 0 {
		return ""
	}
	t := fd.Recv.List[0].Type
	if s, ok := t.(*ast.StarExpr); ok {
		t = s.X
	}
	if id, ok := t.(*ast.Ident); ok {
		return id.Name
	}
	return ""
}

func collectMarshal(repo string) ([]*tyInfo, error) {
	infos := map[string]*tyInfo{}
	get := func(pkg, name string) *tyInfo {
		k := pkg + "." + name
		if infos[k] == nil {
			infos[k] = &tyInfo{pkg: pkg, name: name, omit: map[string]bool{}, cond: map[string]bool{}, condNil: map[string]bool{}}
		}
		return infos[k]
	}
	fset := token.NewFileSet()
	for _, pkg := range []string{"openapi3", "openapi2"} {
		files, _ := filepath.Glob(filepath.Join(repo, pkg, "*.go"))
		sort.Strings(files)
		for _, fn := range files {
			if strings.HasSuffix(fn, "_test.go") {
				continue
			}
			f, err := parser.ParseFile(fset, fn, nil, 0)
			if err != nil {
				return nil, err
			}
			for _, d := range f.Decls {
				switch x := d.(type) {
				case *ast.GenDecl:
					for _, sp := range x.Specs {
						ts, ok := sp.(*ast.TypeSpec)
						if !ok {
							continue
						}
						st, ok := ts.Type.(*ast.StructType)
						if !ok {
							continue
						}
						ti := get(pkg, ts.Name.Name)
						for _, fld := range st.Fields.List {
							if fld.Tag == nil {
								continue
							}
							tag, _ := strconv.Unquote(fld.Tag.Value)
							js := reflect.StructTag(tag).Get("json")
							if js == "" || js == "-" {
								continue
							}
							parts := strings.Split(js, ",")
							if parts[0] == "" {
								continue
							}
							ti.tags = append(ti.tags, parts[0])
							for _, o := range parts[1:] {
								if o == "omitempty" {
									ti.omit[parts[0]] = true
								}
							}
						}
					}
				case *ast.FuncDecl:
					tn := recvTypeName(x)
					if tn == "" || x.Body == nil {
						continue
					}
					isM := x.Name.Name == "MarshalYAML" || (pkg == "openapi2" && x.Name.Name == "MarshalJSON")
					isU := x.Name.Name == "UnmarshalJSON"
					if !isM && !isU {
						continue
					}
					ti := get(pkg, tn)
					var walk func(n ast.Node, inIf bool)
					nilTest := false
					walk = func(n ast.Node, inIf bool) {
						ast.Inspect(n, func(c ast.Node) bool {
							switch s := c.(type) {
							case *ast.IfStmt:
								if s.Init != nil {
									walk(s.Init, inIf)
								}
								old := nilTest
								nilTest = condIsNilTest(s.Cond)
								walk(s.Body, true)
								nilTest = old
								if s.Else != nil {
									walk(s.Else, true)
								}
								return false
							case *ast.AssignStmt:
								if !isM {
									return true
								}
								for _, l := range s.Lhs {
									if ix, ok := l.(*ast.IndexExpr); ok {
										if id, ok := ix.X.(*ast.Ident); ok && id.Name == "m" {
											if lit, ok := ix.Index.(*ast.BasicLit); ok && lit.Kind == token.STRING {
												k, _ := strconv.Unquote(lit.Value)
												ti.marshal = append(ti.marshal, k)
												if inIf {
													ti.cond[k] = true
													if nilTest {
														ti.condNil[k] = true
													}
												}
												ti.hasM = true
											}
										}
									}
								}
							case *ast.CallExpr:
								if !isU {
									return true
								}
								if id, ok := s.Fun.(*ast.Ident); ok && id.Name == "delete" && len(s.Args) == 2 {
									if sel, ok := s.Args[0].(*ast.SelectorExpr); ok && sel.Sel.Name == "Extensions" {
										switch k := s.Args[1].(type) {
										case *ast.BasicLit:
											v, _ := strconv.Unquote(k.Value)
											ti.deleted = append(ti.deleted, v)
										case *ast.Ident:
											if k.Name == "originKey" {
												ti.deleted = append(ti.deleted, "__origin__")
											} else {
												ti.deleted = append(ti.deleted, "?"+k.Name)
											}
										}
										ti.hasU = true
									}
								}
							}
							return true
						})
					}
					walk(x.Body, false)
				}
			}
		}
	}
	var out []*tyInfo
	for _, ti := range infos {
		if ti.hasM && ti.hasU {
			out = append(out, ti)
		}
	}
	sort.Slice(out, func(i, j int) bool { return out[i].pkg+out[i].name < out[j].pkg+out[j].name })
	return out, nil
}

func coqStrs(xs []string) string {
	out := make([]string, len(xs))
	for i, x := range xs {
		out[i] = coqStr(x)
	}
	return coqList(out)
}

func init() {
	tables["Marshal"] = func(repo string) (string, error) {
		infos, err := collectMarshal(repo)
		if err != nil {
			return "", err
		}
		if len(infos) < 20 {
			return "", fmt.Errorf("only %d marshalled types recognised", len(infos))
		}
		var b strings.Builder
		b.WriteString("(* GENERATED by xlate -table Marshal from openapi3/*.go and openapi2/*.go. Do not edit. *)\n")
		b.WriteString("From KV Require Import Model.Base Model.Codec.\nOpen Scope string_scope. Open Scope list_scope.\n")
		b.WriteString("Definition marshal_tables : list tyinfo := [\n")
		for i, ti := range infos {
			var condKeys []string // omitted when the field has its zero value
			for _, k := range ti.marshal {
				if ti.cond[k] && !ti.condNil[k] {
					condKeys = append(condKeys, k)
				}
			}
			sep := ";"
			if i == len(infos)-1 {
				sep = ""
			}
			fmt.Fprintf(&b, "  mkTyInfo %s %s %s %s %s%s\n", coqStr(ti.pkg+"."+ti.name), coqStrs(ti.tags), coqStrs(ti.marshal), coqStrs(condKeys), coqStrs(ti.deleted), sep)
		}
		b.WriteString("].\n")
		fmt.Fprintf(os.Stderr, "xlate Marshal: %d types\n", len(infos))
		return b.String(), nil
	}
}

// condIsNilTest: the condition is made of nil comparisons only (x != nil, x.Has != nil || x.Schema != nil);
// a conjunct that tests anything else (a length, a zero value) makes it a zero test
func condIsNilTest(e ast.Expr) bool {
	switch x := e.(type) {
	case *ast.ParenExpr:
		return condIsNilTest(x.X)
	case *ast.BinaryExpr:
		switch x.Op {
		case token.LOR, token.LAND:
			return condIsNilTest(x.X) && condIsNilTest(x.Y)
		case token.NEQ:
			id, ok := x.Y.(*ast.Ident)
			return ok && id.Name == "nil"
		}
	}
	return false
}
