package main

// Table "Reasons": every construction site of a SchemaError Reason (and of a format validator's
// error text, which flows into a Reason) in openapi3/schema*.go, with the source class of every
// argument of its format string, by a conservative intra-procedural reaching-definition pass:
// unknown = tainted (AValue).

import (
	"fmt"
	"go/ast"
	"go/parser"
	"go/token"
	"path/filepath"
	"sort"
	"strconv"
	"strings"
)

type asrc int

const (
	ALit asrc = iota
	ASchema
	AIdx
	AType
	AKey
	AValidator
	AValue
)

var asrcNames = []string{"ALit", "ASchema", "AIdx", "AType", "AKey", "AValidator", "AValue"}

func worst(a, b asrc) asrc {
	if a > b {
		return a
	}
	return b
}

type fnScope struct {
	fn       *ast.FuncDecl
	recv     string
	params   map[*ast.Object]ast.Expr // parameter object -> type
	defs     map[*ast.Object][]ast.Expr
	rangeOf  map[*ast.Object]rangeDef
	visiting map[*ast.Object]bool
}
type rangeDef struct {
	x     ast.Expr
	isKey bool
}

func newScope(fn *ast.FuncDecl) *fnScope {
	s := &fnScope{fn: fn, params: map[*ast.Object]ast.Expr{}, defs: map[*ast.Object][]ast.Expr{}, rangeOf: map[*ast.Object]rangeDef{}, visiting: map[*ast.Object]bool{}}
	if fn.Recv != nil && len(fn.Recv.List) > 0 && len(fn.Recv.List[0].Names) > 0 {
		s.recv = fn.Recv.List[0].Names[0].Name
	}
	for _, f := range fn.Type.Params.List {
		for _, n := range f.Names {
			if n.Obj != nil {
				s.params[n.Obj] = f.Type
			}
		}
	}
	addDef := func(id *ast.Ident, rhs ast.Expr) {
		if id.Obj != nil {
			s.defs[id.Obj] = append(s.defs[id.Obj], rhs)
		}
	}
	ast.Inspect(fn.Body, func(n ast.Node) bool {
		switch st := n.(type) {
		case *ast.AssignStmt:
			for i, l := range st.Lhs {
				id, ok := l.(*ast.Ident)
				if !ok {
					continue
				}
				if len(st.Rhs) == len(st.Lhs) {
					addDef(id, st.Rhs[i])
				} else if len(st.Rhs) == 1 {
					addDef(id, st.Rhs[0])
				}
			}
		case *ast.ValueSpec:
			for i, n := range st.Names {
				if i < len(st.Values) {
					addDef(n, st.Values[i])
				} else if len(st.Values) == 0 {
					addDef(n, &ast.BasicLit{Kind: token.STRING, Value: `""`})
				}
			}
		case *ast.RangeStmt:
			if id, ok := st.Key.(*ast.Ident); ok && id.Name != "_" && id.Obj != nil {
				s.rangeOf[id.Obj] = rangeDef{st.X, true}
			}
			if id, ok := st.Value.(*ast.Ident); ok && id.Name != "_" && id.Obj != nil {
				s.rangeOf[id.Obj] = rangeDef{st.X, false}
			}
		case *ast.IncDecStmt:
			if id, ok := st.X.(*ast.Ident); ok {
				addDef(id, &ast.BasicLit{Kind: token.INT, Value: "1"})
			}
		}
		return true
	})
	return s
}

func rootIdent(e ast.Expr) *ast.Ident {
	for {
		switch x := e.(type) {
		case *ast.Ident:
			return x
		case *ast.SelectorExpr:
			e = x.X
		case *ast.StarExpr:
			e = x.X
		case *ast.ParenExpr:
			e = x.X
		case *ast.IndexExpr:
			e = x.X
		case *ast.SliceExpr:
			e = x.X
		case *ast.UnaryExpr:
			e = x.X
		case *ast.TypeAssertExpr:
			e = x.X
		default:
			return nil
		}
	}
}

func isMapType(t ast.Expr) bool {
	_, ok := t.(*ast.MapType)
	return ok
}

func (s *fnScope) classify(e ast.Expr) asrc {
	switch x := e.(type) {
	case *ast.BasicLit:
		return ALit
	case *ast.CompositeLit:
		w := ALit
		for _, el := range x.Elts {
			w = worst(w, s.classify(el))
		}
		return w
	case *ast.BinaryExpr:
		return worst(s.classify(x.X), s.classify(x.Y))
	case *ast.CallExpr:
		// method calls on errors coming from a format validator
		if sel, ok := x.Fun.(*ast.SelectorExpr); ok {
			if sel.Sel.Name == "Error" && len(x.Args) == 0 {
				return AValidator
			}
			if id, ok := sel.X.(*ast.Ident); ok && (id.Name == "strconv" || id.Name == "math") {
				// numeric conversions of their arguments
			}
		}
		if id, ok := x.Fun.(*ast.Ident); ok && (id.Name == "len" || id.Name == "cap") {
			return AIdx
		}
		// delegation to another validator held by the receiver (c.fn(value), d.shape.Validate(value)):
		// its text is that validator's own site
		if sel, ok := x.Fun.(*ast.SelectorExpr); ok && s.recv != "" {
			if r := rootIdent(sel.X); r != nil && r.Name == s.recv && (sel.Sel.Name == "Validate" || sel.Sel.Name == "fn") {
				return AValidator
			}
		}
		if id, ok := x.Fun.(*ast.Ident); ok && id.Name == "make" {
			return ALit
		}
		w := ALit
		for _, a := range x.Args {
			w = worst(w, s.classify(a))
		}
		if sel, ok := x.Fun.(*ast.SelectorExpr); ok {
			if r := rootIdent(sel.X); r != nil && r.Obj != nil { // method call on a local
				w = worst(w, s.classify(sel.X))
			}
		}
		return w
	case *ast.Ident:
		return s.classifyIdent(x)
	case *ast.UnaryExpr:
		return s.classify(x.X)
	case *ast.KeyValueExpr:
		return s.classify(x.Value)
	case *ast.SelectorExpr, *ast.StarExpr, *ast.ParenExpr, *ast.IndexExpr, *ast.SliceExpr, *ast.TypeAssertExpr:
		if sel, ok := e.(*ast.SelectorExpr); ok && sel.Sel.Name == "Reason" {
			if r := rootIdent(sel.X); r != nil && r.Name != s.recv && r.Name != "schema" {
				return AValidator // schemaErr.Reason of a validator's error
			}
		}
		r := rootIdent(e)
		if r == nil {
			return AValue
		}
		if ix, ok := e.(*ast.IndexExpr); ok {
			return worst(s.classifyIdent(r), s.classify(ix.Index))
		}
		return s.classifyIdent(r)
	}
	return AValue
}

func (s *fnScope) classifyIdent(id *ast.Ident) asrc {
	name := id.Name
	switch name {
	case "nil", "true", "false":
		return ALit
	case "schema":
		return ASchema
	}
	if name == s.recv && s.recv != "" {
		return ASchema // validator configuration / the schema itself
	}
	o := id.Obj
	if o == nil {
		// package-level identifiers: constants such as TypeArray, package names
		if ast.IsExported(name) || name == "fmt" || name == "strings" || name == "json" || name == "errors" || name == "regexp" {
			return ALit
		}
		return AValue
	}
	if s.visiting[o] {
		return ALit
	}
	s.visiting[o] = true
	defer delete(s.visiting, o)
	w := ALit
	found := false
	if _, ok := s.params[o]; ok {
		found = true
		if name == "settings" {
			w = worst(w, ASchema)
		} else {
			w = worst(w, AValue)
		}
	}
	if rd, ok := s.rangeOf[o]; ok {
		found = true
		xc := s.classify(rd.x)
		if rd.isKey {
			// key of a map range over the value = a member name; index of a slice range = a number
			isMap := false
			if r, ok := rd.x.(*ast.Ident); ok && r.Obj != nil {
				if t, ok := s.params[r.Obj]; ok && isMapType(t) {
					isMap = true
				}
			}
			if isMap {
				w = worst(w, AKey)
			} else {
				w = worst(w, AIdx)
			}
		} else {
			w = worst(w, xc)
		}
	}
	for _, d := range s.defs[o] {
		found = true
		w = worst(w, s.classify(d))
	}
	if !found {
		if _, isField := o.Decl.(*ast.Field); isField {
			return ALit // named result never assigned
		}
		if ts, ok := o.Decl.(*ast.TypeSwitchStmt); ok {
			_ = ts
		}
		if as, ok := o.Decl.(*ast.AssignStmt); ok && len(as.Rhs) == 1 {
			return s.classify(as.Rhs[0])
		}
		return AValue
	}
	return w
}

type rsite struct {
	loc, field, format string
	args               []asrc
}

func verbsOf(format string) []byte {
	var out []byte
	for i := 0; i < len(format); i++ {
		if format[i] != '%' {
			continue
		}
		i++
		for i < len(format) && strings.ContainsRune("+-# 0123456789.[]*", rune(format[i])) {
			i++
		}
		if i < len(format) && format[i] != '%' {
			out = append(out, format[i])
		}
	}
	return out
}

func (s *fnScope) reasonSite(loc, field string, e ast.Expr) rsite {
	site := rsite{loc: loc, field: field}
	if call, ok := e.(*ast.CallExpr); ok {
		if sel, ok := call.Fun.(*ast.SelectorExpr); ok {
			if pk, ok := sel.X.(*ast.Ident); ok && pk.Name == "fmt" && (sel.Sel.Name == "Sprintf" || sel.Sel.Name == "Errorf") && len(call.Args) > 0 {
				if lit, ok := call.Args[0].(*ast.BasicLit); ok {
					f, _ := strconv.Unquote(lit.Value)
					site.format = f
					verbs := verbsOf(f)
					for i, a := range call.Args[1:] {
						c := s.classify(a)
						if i < len(verbs) && verbs[i] == 'T' {
							c = AType
						}
						if i < len(verbs) && verbs[i] == 'w' {
							c = AValidator // wrapped cause: reported through Origin, classified at its own site
						}
						site.args = append(site.args, c)
					}
					return site
				}
			}
		}
	}
	if lit, ok := e.(*ast.BasicLit); ok {
		f, _ := strconv.Unquote(lit.Value)
		site.format = f
		return site
	}
	site.format = "%v"
	site.args = []asrc{s.classify(e)}
	return site
}

func collectReasonSites(repo string) ([]rsite, error) {
	var sites []rsite
	fset := token.NewFileSet()
	for _, fn := range []string{"schema.go", "schema_formats.go", "schema_pattern.go"} {
		f, err := parser.ParseFile(fset, filepath.Join(repo, "openapi3", fn), nil, 0)
		if err != nil {
			return nil, err
		}
		for _, d := range f.Decls {
			fd, ok := d.(*ast.FuncDecl)
			if !ok || fd.Body == nil {
				continue
			}
			sc := newScope(fd)
			counter := map[string]int{}
			isValidator := fd.Name.Name == "Validate" && fn == "schema_formats.go"
			ast.Inspect(fd.Body, func(n ast.Node) bool {
				switch x := n.(type) {
				case *ast.CompositeLit:
					tn := ""
					switch t := x.Type.(type) {
					case *ast.Ident:
						tn = t.Name
					case *ast.SelectorExpr:
						tn = t.Sel.Name
					}
					if tn != "SchemaError" {
						return true
					}
					field := ""
					var reason ast.Expr
					for _, el := range x.Elts {
						kv, ok := el.(*ast.KeyValueExpr)
						if !ok {
							continue
						}
						k, _ := kv.Key.(*ast.Ident)
						if k == nil {
							continue
						}
						if k.Name == "SchemaField" {
							if lit, ok := kv.Value.(*ast.BasicLit); ok {
								field, _ = strconv.Unquote(lit.Value)
							}
						}
						if k.Name == "Reason" {
							reason = kv.Value
						}
					}
					if reason == nil {
						return true
					}
					key := fd.Name.Name + ":" + field
					counter[key]++
					sites = append(sites, sc.reasonSite(fmt.Sprintf("%s:%s#%d", fn, key, counter[key]), field, reason))
				case *ast.AssignStmt:
					// e.Reason = fmt.Sprintf(...)
					for i, l := range x.Lhs {
						if sel, ok := l.(*ast.SelectorExpr); ok && sel.Sel.Name == "Reason" && i < len(x.Rhs) {
							key := fd.Name.Name + ":assign"
							counter[key]++
							sites = append(sites, sc.reasonSite(fmt.Sprintf("%s:%s#%d", fn, key, counter[key]), "oneOf", x.Rhs[i]))
						}
					}
				case *ast.ReturnStmt:
					if !isValidator {
						return true
					}
					for _, r := range x.Results {
						if id, ok := r.(*ast.Ident); ok && id.Name == "nil" {
							continue
						}
						if call, ok := r.(*ast.CallExpr); ok {
							if sel, ok := call.Fun.(*ast.SelectorExpr); ok {
								if pk, ok := sel.X.(*ast.Ident); ok && pk.Name == "fmt" && sel.Sel.Name == "Errorf" {
									continue // handled as its own site below
								}
							}
						}
						if u, ok := r.(*ast.UnaryExpr); ok {
							if cl, ok := u.X.(*ast.CompositeLit); ok {
								_ = cl
								continue // &SchemaError{...}: handled as a composite-literal site
							}
						}
						key := fd.Name.Name + ":return"
						counter[key]++
						sites = append(sites, rsite{loc: fmt.Sprintf("%s:%s#%d", fn, key, counter[key]), field: "format-validator", format: "%v", args: []asrc{sc.classify(r)}})
					}
				case *ast.CallExpr:
					if !isValidator {
						return true
					}
					if sel, ok := x.Fun.(*ast.SelectorExpr); ok {
						if pk, ok := sel.X.(*ast.Ident); ok && pk.Name == "fmt" && sel.Sel.Name == "Errorf" {
							key := fd.Name.Name + ":validator"
							counter[key]++
							sites = append(sites, sc.reasonSite(fmt.Sprintf("%s:%s#%d", fn, key, counter[key]), "format-validator", x))
						}
					}
				}
				return true
			})
		}
	}
	sort.SliceStable(sites, func(i, j int) bool { return sites[i].loc < sites[j].loc })
	return sites, nil
}

func init() {
	tables["Reasons"] = func(repo string) (string, error) {
		sites, err := collectReasonSites(repo)
		if err != nil {
			return "", err
		}
		if len(sites) < 10 {
			return "", fmt.Errorf("only %d reason sites recognised", len(sites))
		}
		var b strings.Builder
		b.WriteString("(* GENERATED by xlate -table Reasons from openapi3/schema.go, schema_formats.go, schema_pattern.go. Do not edit. *)\n")
		b.WriteString("From KV Require Import Model.Base Model.ReasonSites.\nOpen Scope string_scope. Open Scope list_scope.\n")
		b.WriteString("Definition reason_sites : list rsite := [\n")
		for i, s := range sites {
			args := make([]string, len(s.args))
			for j, a := range s.args {
				args[j] = asrcNames[a]
			}
			sep := ";"
			if i == len(sites)-1 {
				sep = ""
			}
			fmt.Fprintf(&b, "  mkRSite %s %s %s %s%s\n", coqStr(s.loc), coqStr(s.field), coqStr(s.format), coqList(args), sep)
		}
		b.WriteString("].\n")
		return b.String(), nil
	}
}
