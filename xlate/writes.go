package main

// Table "Writes": every package-level variable of the non-test library packages on the traffic
// path (openapi3, openapi3filter, openapi3gen, routers/...), its synchronisation class, and every
// syntactic write to it (assignment, map store, delete, append-assign, ++/--) with the enclosing
// function.  Coq side: coq/Model/Conc.v checks that every write outside package initialisation and
// the documented registration functions is to a synchronised variable.

import (
	"fmt"
	"go/ast"
	"go/parser"
	"go/token"
	"os"
	"path/filepath"
	"sort"
	"strings"
)

func init() { tables["Writes"] = xlateWrites }

func xlateWrites(repo string) (string, error) {
	pkgs := []string{"openapi3", "openapi3filter", "openapi3gen", "routers", "routers/gorillamux", "routers/legacy", "routers/legacy/pathpattern"}
	var vars, writes []string
	for _, pkg := range pkgs {
		dir := filepath.Join(repo, pkg)
		ents, err := os.ReadDir(dir)
		if err != nil {
			return "", err
		}
		fset := token.NewFileSet()
		var files []*ast.File
		var names []string
		for _, e := range ents {
			n := e.Name()
			if e.IsDir() || !strings.HasSuffix(n, ".go") || strings.HasSuffix(n, "_test.go") {
				continue
			}
			src, err := os.ReadFile(filepath.Join(dir, n))
			if err != nil {
				return "", err
			}
			if strings.Contains(string(src), "//go:build verif") {
				continue
			}
			f, err := parser.ParseFile(fset, filepath.Join(dir, n), src, 0)
			if err != nil {
				return "", err
			}
			files = append(files, f)
			names = append(names, n)
		}
		// package-level variables and their class
		class := map[string]string{}
		for _, f := range files {
			for _, d := range f.Decls {
				gd, ok := d.(*ast.GenDecl)
				if !ok || gd.Tok != token.VAR {
					continue
				}
				for _, sp := range gd.Specs {
					vs := sp.(*ast.ValueSpec)
					typ := ""
					if vs.Type != nil {
						typ = exprText(vs.Type)
					}
					for i, id := range vs.Names {
						if id.Name == "_" {
							continue
						}
						val := ""
						if i < len(vs.Values) {
							val = exprText(vs.Values[i])
						}
						c := "plain"
						switch {
						case strings.Contains(typ, "sync.Map") || strings.Contains(val, "sync.Map"):
							c = "syncmap"
						case strings.Contains(typ, "sync.") || strings.Contains(val, "sync."):
							c = "lock"
						}
						class[id.Name] = c
					}
				}
			}
		}
		// which plain variables are only touched while a package mutex is held: the enclosing
		// function locks a package-level lock variable (Lock / RLock call on it)
		for _, f := range files {
			for _, d := range f.Decls {
				fd, ok := d.(*ast.FuncDecl)
				if !ok || fd.Body == nil {
					continue
				}
				fname := fd.Name.Name
				if fd.Recv != nil && len(fd.Recv.List) > 0 {
					fname = "(" + exprText(fd.Recv.List[0].Type) + ")." + fname
				}
				locked := false
				ast.Inspect(fd.Body, func(n ast.Node) bool {
					if call, ok := n.(*ast.CallExpr); ok {
						if sel, ok := call.Fun.(*ast.SelectorExpr); ok && (sel.Sel.Name == "Lock" || sel.Sel.Name == "RLock") {
							if id, ok := sel.X.(*ast.Ident); ok && class[id.Name] == "lock" {
								locked = true
							}
						}
					}
					return true
				})
				// local shadowing: parameters and := declarations hide package variables
				local := map[string]bool{}
				if fd.Type.Params != nil {
					for _, p := range fd.Type.Params.List {
						for _, id := range p.Names {
							local[id.Name] = true
						}
					}
				}
				ast.Inspect(fd.Body, func(n ast.Node) bool {
					if as, ok := n.(*ast.AssignStmt); ok && as.Tok == token.DEFINE {
						for _, l := range as.Lhs {
							if id, ok := l.(*ast.Ident); ok {
								local[id.Name] = true
							}
						}
					}
					return true
				})
				rec := func(target ast.Expr, how string) {
					// root identifier of the written expression
					root := target
					for {
						switch t := root.(type) {
						case *ast.IndexExpr:
							root = t.X
							continue
						case *ast.SelectorExpr:
							root = t.X
							continue
						case *ast.StarExpr:
							root = t.X
							continue
						case *ast.ParenExpr:
							root = t.X
							continue
						}
						break
					}
					id, ok := root.(*ast.Ident)
					if !ok || local[id.Name] {
						return
					}
					c, isPkg := class[id.Name]
					if !isPkg {
						return
					}
					writes = append(writes, fmt.Sprintf("mkWrite %s %s %s %s %s %s", coqStr(pkg), coqStr(id.Name), coqStr(c), coqStr(fname), coqStr(how), coqBoolX(locked)))
				}
				ast.Inspect(fd.Body, func(n ast.Node) bool {
					switch t := n.(type) {
					case *ast.AssignStmt:
						if t.Tok != token.DEFINE {
							for _, l := range t.Lhs {
								rec(l, "assign")
							}
						}
					case *ast.IncDecStmt:
						rec(t.X, "incdec")
					case *ast.CallExpr:
						if id, ok := t.Fun.(*ast.Ident); ok && id.Name == "delete" && len(t.Args) > 0 {
							rec(t.Args[0], "delete")
						}
					}
					return true
				})
			}
		}
		var vn []string
		for v := range class {
			vn = append(vn, v)
		}
		sort.Strings(vn)
		for _, v := range vn {
			vars = append(vars, fmt.Sprintf("(%s, %s, %s)", coqStr(pkg), coqStr(v), coqStr(class[v])))
		}
	}
	sort.Strings(writes)
	var b strings.Builder
	b.WriteString("(* generated by verif/xlate (table Writes) from /repo - do not edit *)\n")
	b.WriteString("From KV Require Import Model.Base Model.Conc.\nLocal Open Scope list_scope.\n")
	b.WriteString("Definition package_vars : list (string * string * string) :=\n  " + coqList(vars) + ".\n")
	b.WriteString("Definition package_writes : list pwrite :=\n  " + coqList(writes) + ".\n")
	return b.String(), nil
}

func coqBoolX(b bool) string {
	if b {
		return "true"
	}
	return "false"
}

func exprText(e ast.Expr) string {
	switch t := e.(type) {
	case *ast.Ident:
		return t.Name
	case *ast.SelectorExpr:
		return exprText(t.X) + "." + t.Sel.Name
	case *ast.StarExpr:
		return "*" + exprText(t.X)
	case *ast.CallExpr:
		return exprText(t.Fun) + "(...)"
	case *ast.CompositeLit:
		if t.Type != nil {
			return exprText(t.Type) + "{}"
		}
		return "{}"
	case *ast.UnaryExpr:
		return t.Op.String() + exprText(t.X)
	case *ast.MapType:
		return "map[" + exprText(t.Key) + "]" + exprText(t.Value)
	case *ast.ArrayType:
		return "[]" + exprText(t.Elt)
	case *ast.IndexExpr:
		return exprText(t.X) + "[" + exprText(t.Index) + "]"
	case *ast.FuncType:
		return "func"
	}
	return fmt.Sprintf("%T", e)
}
