# Per-property configuration of ./check. Kept declarative; the logic is in ./check.
COMMON_ASSUME = [
    "the hand-written Gallina model is tied to /repo only by the correspondence run (sampled inputs, seeded) on this tree",
]
PROPS = {
    "C14": {
        "props": "Props/C14.v", "exec": ["Exec/C14Exec.v"],
        "n_quick": 1500, "n_thorough": 40000,
        "theorem": "C14_middleware_meets_spec",
        "technique": "Coq proof (induction over the handler call sequence, wrapper invariants) + Go/model correspondence by vm_compute",
        "level_text": "Theorems C14_handler_iff / C14_middleware_meets_spec / C14_nonstrict_passthrough hold for every handler call sequence, every oracle outcome, every error callback and both modes of the Gallina model of middleware.go; the model is compared with the real Validator.Middleware on directed + seeded random cases every run.",
        "level_note": "Trusted: Coq kernel, vm_compute, the harness and its printer; routing/request/response validation are oracles; client writer = ResponseRecorder semantics; model tied to the code by sampled correspondence only.",
        "theorems": ["C14_handler_iff", "C14_middleware_meets_spec", "C14_nonstrict_passthrough"],
        "trusted_base": [
            "routing / request validation / response validation outcomes are oracles (Section variables route_ok, req_ok, resp_ok); their own properties are C09, C07, C08",
            "client writer reference model = net/http/httptest.ResponseRecorder semantics (first WriteHeader wins, implicit 200, codes outside 100..999 panic)",
        ],
        "assumptions": COMMON_ASSUME + ["response headers are not part of the compared observables (the property speaks of status code and body bytes)"],
    },
}
