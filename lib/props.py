# Per-property configuration of ./check. Kept declarative; the logic is in ./check.
COMMON_ASSUME = [
    "the hand-written Gallina model is tied to /repo only by the correspondence run (sampled inputs, seeded) on this tree",
]
PROPS = {
    "C14": {
        "props": "Props/C14.v", "exec": ["Exec/C14Exec.v"],
        "n_quick": 1500, "n_thorough": 40000,
        "theorem": "C14_middleware_meets_spec",
        "technique": "Coq proof (induction over the handler call sequence, wrapper invariants) + Go/model correspondence by vm_compute",
        "level_text": "Theorems C14_handler_iff / C14_middleware_meets_spec / C14_nonstrict_passthrough hold for every handler call sequence, every oracle outcome, every error callback and both modes of the Gallina model of middleware.go; the model is compared with the real Validator.Middleware on directed + seeded random cases every run.",
        "level_note": "Trusted: Coq kernel, vm_compute, the harness and its printer; routing/request/response validation are oracles; client writer = ResponseRecorder semantics; model tied to the code by sampled correspondence only.",
        "theorems": ["C14_handler_iff", "C14_middleware_meets_spec", "C14_nonstrict_passthrough"],
        "trusted_base": [
            "routing / request validation / response validation outcomes are oracles (Section variables route_ok, req_ok, resp_ok); their own properties are C09, C07, C08",
            "client writer reference model = net/http/httptest.ResponseRecorder semantics (first WriteHeader wins, implicit 200, codes outside 100..999 panic)",
        ],
        "assumptions": COMMON_ASSUME + ["response headers are not part of the compared observables (the property speaks of status code and body bytes)"],
    },
    "C01": {
        "props": "Props/C01.v", "exec": ["Exec/SchemaExec.v"],
        "n_quick": 2500, "n_thorough": 60000,
        "theorem": "C01_visit_iff_sat",
        "theorems": ["C01_visit_iff_sat", "C01_refuted_isempty_shortcut", "C01_refuted_isempty_shortcut_null_member",
                     "C01_refuted_exclusive_without_bound", "C01_refuted_unique_negzero", "C01_refuted_huge_bound",
                     "C01_refuted_multipleof_zero", "C01_refuted_bad_pattern_multi", "C01_hyps_satisfiable"],
        "technique": "Coq proof by nested structural induction on the schema (visit = satb under named guards, no panic) + Go/model/spec three-way correspondence by vm_compute",
        "level_text": "C01_visit_iff_sat: for every regexp/format oracle, every mode, every tree schema of any depth and every JSON value meeting the named executable guards, the Gallina model of visitJSON does not panic and accepts iff the value satisfies the compositional keyword-by-keyword specification satb. Each guard has a machine-checked refuted witness that is a finding on the real code. The model is compared with VisitJSON (3 modes) and with satb on directed boundary tables + seeded random schema/value pairs every run.",
        "level_note": "Trusted: Coq kernel + vm_compute, primitive floats (Print Assumptions lists only PrimFloat constants), regexp and format validators as oracles evaluated with Go's regexp / the registered validators, harness printer. Not modelled: $ref cycles (tree schemas), discriminator, default injection, json.Number/int inputs (C05 covers decoded ints).",
        "trusted_base": ["regexp compile/match and format validators are Section-variable oracles; the harness supplies their finite fragment per case using Go's regexp package and the registered validators outside visitJSON",
                         "numbers are Coq primitive binary64 floats; float literals cross as hexadecimal"],
        "assumptions": COMMON_ASSUME + ["schemas are trees built directly as *openapi3.Schema (no loader)", "guards: g_all (IsEmpty shortcut only on childless schemas, exclusive flags have bounds, bounds < 2^63, patterns compile, property keys unique), vg (finite numbers, no 0/-0 clash under uniqueItems, unique object keys), g_div (no NaN quotient)"],
    },
    "C12": {
        "props": "Props/C12.v", "exec": ["Exec/SchemaExec.v"],
        "n_quick": 2500, "n_thorough": 60000,
        "theorem": "C12_verdict_mode_indep",
        "theorems": ["C12_verdict_mode_indep", "C12_leaf_checks_mode_indep", "C12_refuted_bad_pattern"],
        "technique": "Coq proof (corollary of the C01 induction: same verdict in all modes) + Go/model comparison of verdicts, error fields, JSON pointers and quoted values + direct pointer oracle",
        "level_text": "C12_verdict_mode_indep: under the C01 guards the model's verdict is identical in default, fail-fast and multi-error modes and never a panic, formats and patterns included via oracles. Every run compares, per case, the three Go verdicts and IsMatching with the model, the (SchemaField, JSON pointer, quoted value) of every returned schema error with the model's error list, and checks each Go error's pointer against the validated value directly.",
        "level_note": "The pointer/quoted-value half of the property is decided by the direct oracle + model comparison on sampled inputs (theorem for it not yet proved: stated in DESIGN.md as C12_pointer_resolves, pending). Discriminator not modelled.",
        "trusted_base": ["same oracles as C01"],
        "assumptions": COMMON_ASSUME + ["message customisers are not inputs of the model's visit (they cannot influence it by construction)"],
    },
}
