#!/bin/sh
# usage: lib/soak.sh <nseeds> [first seed] [tier] : runs every registered check over several seeds on the unchanged tree,
# prints one line per (property, seed) and every VIOLATION line.
n=${1:-5}; first=${2:-100}; tier=${3:-quick}
ids=$(python3 -c "import json;print(' '.join(c['property_id'] for c in json.load(open('MANIFEST.json'))['checks']))")
for id in $ids; do
  s=$first
  while [ $s -lt $((first+n)) ]; do
    out=$(VERIF_SEED=$s ./check $id $tier 2>&1); rc=$?
    echo "$id seed=$s exit=$rc $(echo "$out" | grep -v KNOWN | grep -v VIOLATION | tail -1)"
    echo "$out" | grep "^VIOLATION" | sed "s/^/   seed=$s /"
    s=$((s+1))
  done
done
