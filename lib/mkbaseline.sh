#!/bin/sh
# usage: lib/mkbaseline.sh C16 : regenerates known_inputs/<id>.json on the UNCHANGED tree - the signatures each
# quick-tier input shows, as the union of three runs (watchdog timings vary).  Run it only after making sure
# that /repo is clean and that every signature it records is a genuine, listed finding.
id=$1; cd /verif
[ -z "$(git -C /repo status --porcelain)" ] || { echo "/repo is not clean"; exit 2; }
for k in 1 2 3; do VERIF_WRITE_BASELINE=/verif/work/baseline_$k.json ./check $id quick > /dev/null 2>&1; done
python3 - "$id" <<'PY'
import json,sys
out={}
for k in (1,2,3):
    for ck,sigs in json.load(open('/verif/work/baseline_%d.json'%k)).items():
        out[ck]=sorted(set(out.get(ck,[]))|set(sigs))
json.dump(out,open('/verif/known_inputs/%s.json'%sys.argv[1],'w'),indent=0,sort_keys=True)
print(len(out),'inputs recorded;', sum(1 for v in out.values() if v),'with findings')
PY
rm -f /verif/work/baseline_?.json
