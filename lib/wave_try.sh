#!/bin/bash
# usage: lib/wave_try.sh <seed>... : runs every named stored seed against its property's quick check (lib/try_patch.sh),
# writes one line per seed to /tmp/wave_try.log: <seed> <exit code> <number of VIOLATION lines> <first VIOLATION line>
cd /verif
: > /tmp/wave_try.log
for s in "$@"; do
  id=${s%%-*}
  out=$(timeout 1500 lib/try_patch.sh $id /verif/seeded/$s/patch.diff 2>&1)
  git -C /repo checkout -q -- . ; git -C /repo clean -fdq
  rc=$(echo "$out" | grep '^exit=' | sed 's/exit=//')
  nv=$(echo "$out" | grep '^violations:' | sed 's/violations: //')
  fv=$(echo "$out" | grep '^VIOLATION' | head -1)
  echo "$s rc=$rc violations=$nv $fv" >> /tmp/wave_try.log
done
echo done >> /tmp/wave_try.log
