#!/usr/bin/env python3
"""Regenerates the generated parts of DESIGN.md (between <!-- gen:X --> and <!-- /gen:X -->)
from known_findings.json and seeded/*/meta.json."""
import json, os, re, glob
V = os.path.dirname(os.path.dirname(os.path.abspath(__file__)))
def findings():
    out = []
    for f in json.load(open(V + '/known_findings.json'))['findings']:
        ident = ('class %s' % f['class']) if 'class' in f and f['class'] is not None else 'signature `%s`' % f.get('signature')
        st = 'fixed in %s' % f['commit'] if f.get('status') == 'fixed' else 'known'
        out.append('- **%s** %s (%s): %s' % (f['property'], ident, st, f['description']))
    return '\n'.join(out)
def seeds():
    rows = ['| seed | what the change needs | detected by |', '|---|---|---|']
    def key(p):
        b = os.path.basename(os.path.dirname(p)); a, n = b.split('-'); return (a, int(n))
    for m in sorted(glob.glob(V + '/seeded/*/meta.json'), key=key):
        j = json.load(open(m)); b = os.path.basename(os.path.dirname(m))
        rows.append('| %s | %s | %s |' % (b, j.get('needs', '').replace('|', '/'), j.get('detected_by', '').replace('|', '/')))
    return '\n'.join(rows)
src = open(V + '/DESIGN.md').read()
for name, fn in (('findings', findings), ('seeds', seeds)):
    pat = re.compile(r'(<!-- gen:%s -->\n).*?(\n<!-- /gen:%s -->)' % (name, name), re.S)
    assert pat.search(src), name
    src = pat.sub(lambda m: m.group(1) + fn() + m.group(2), src)
open(V + '/DESIGN.md', 'w').write(src)
print('DESIGN.md regenerated')
