#!/usr/bin/env python3
"""Regenerates MANIFEST.json from lib/props.py (so the two never drift)."""
import json, os, sys
ROOT = os.path.dirname(os.path.dirname(os.path.abspath(__file__)))
sys.path.insert(0, os.path.join(ROOT, "lib"))
from props import PROPS
ids = [json.loads(l)["id"] for l in open(os.path.join(ROOT, "properties.jsonl"))]
hooks_commits = []
hp = os.path.join(ROOT, "hooks_commits.txt")
if os.path.exists(hp):
    hooks_commits = [l.split()[0] for l in open(hp) if l.strip()]
m = {
    "version": 1,
    "setup_cmd": "./check --setup",
    "hooks": {
        "guard": "verif",
        "enable": "go build -tags verif (the harness module replaces github.com/getkin/kin-openapi => /repo and is built with -tags verif)",
        "baseline_off_cmd": "cd /repo && GOFLAGS=-mod=mod GOPROXY=off GOSUMDB=off GOTOOLCHAIN=local go test -vet=off -count=1 -timeout 25m ./...",
        "source_commits": hooks_commits,
        "add_only": True,
    },
    "engines": [
        {"name": "coq", "path": "coq/", "serves_properties": sorted(PROPS), "kind_free_text": "Coq 8.16.1 development: Model/ (executable Gallina), Spec/, Proofs/, Props/ (theorems + Print Assumptions), Exec/ (vm_compute judges), Gen/ (translator output)"},
        {"name": "harness", "path": "harness/", "serves_properties": sorted(PROPS), "kind_free_text": "Go correspondence harness: generates inputs, runs /repo's code, prints cases_*.v"},
        {"name": "xlate", "path": "xlate/", "serves_properties": sorted(p for p in PROPS if PROPS[p].get("xlate")), "kind_free_text": "go/ast translators regenerating coq/Gen/*.v from /repo's working tree"},
    ],
    "checks": [],
    "not_applicable": [],
    "notes": "All checks: ./check <id> quick|thorough; VERIF_SEED honoured. See DESIGN.md.",
}
for pid in ids:
    if pid in PROPS:
        c = PROPS[pid]
        m["checks"].append({
            "property_id": pid,
            "quick_cmd": "./check %s quick" % pid,
            "thorough_cmd": "./check %s thorough" % pid,
            "evidence_file": "evidence/%s.json" % pid,
            "replay_cmd_template": "./check %s --replay {path}" % pid,
            "engine": "coq+harness" + ("+xlate" if c.get("xlate") else ""),
            "level_claimed": {"category": "proof", "text": c["level_text"], "design_ref": "DESIGN.md section 5, " + pid},
            "level_note": c["level_note"],
            "technique": c["technique"],
        })
    else:
        m["not_applicable"].append({"property_id": pid, "reason": "check not built yet in this round (planned as a Coq proof + correspondence, see DESIGN.md section 5); not claimed until its check exists"})
json.dump(m, open(os.path.join(ROOT, "MANIFEST.json"), "w"), indent=1)
print("MANIFEST.json: %d checks, %d not claimed" % (len(m["checks"]), len(m["not_applicable"])))
