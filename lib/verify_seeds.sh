#!/bin/sh
# usage: lib/verify_seeds.sh [ids...] : applies every stored seed to /repo in turn, runs the quick check of its
# property, reverts, and prints one line per seed (detected / MISSED / does-not-apply).  Nothing else may
# use /repo or run checks meanwhile.
cd /verif
out=/verif/work/seeds_report.txt; : > $out
# the unchanged tree first: a check that alarms there detects nothing
[ -z "$(git -C /repo status --porcelain)" ] || { echo "/repo is not clean"; exit 2; }
for id in $(ls -d seeded/*/ | sed 's|seeded/||; s|-.*||' | sort -u); do
  if [ $# -gt 0 ]; then case " $* " in *" $id "*) ;; *) continue;; esac; fi
  ./check $id quick > /verif/work/clean_$id.out 2>&1 || { echo "$id ALARMS-ON-THE-UNCHANGED-TREE" | tee -a $out; }
  rm -f /verif/work/clean_$id.out
done
for d in $(ls -d seeded/*/ | sort -V); do
  s=$(basename $d); id=${s%-*}
  if [ $# -gt 0 ]; then case " $* " in *" $id "*) ;; *) continue;; esac; fi
  if ! git -C /repo apply --check /verif/$d/patch.diff 2>/dev/null; then echo "$s does-not-apply" | tee -a $out; continue; fi
  git -C /repo apply /verif/$d/patch.diff
  # a seed whose meta.json names another check ("check": "C15") is run against that one
  alt=$(python3 -c "import json,sys; print(json.load(open('/verif/$d/meta.json')).get('check',''))" 2>/dev/null)
  [ -n "$alt" ] && id=$alt
  ./check $id quick > /verif/work/seed_$s.out 2>&1; rc=$?
  git -C /repo checkout -- . ; git -C /repo clean -fdq
  n=$(grep -c "^VIOLATION" /verif/work/seed_$s.out)
  nf=$(grep -c "no-failing-input-found" /verif/work/seed_$s.out)
  if [ $rc -ne 0 ] && [ $n -gt 0 ]; then echo "$s detected violations=$n without-input=$nf" | tee -a $out; else echo "$s MISSED rc=$rc" | tee -a $out; fi
  rm -f /verif/work/seed_$s.out
done
