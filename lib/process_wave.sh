#!/bin/sh
# usage: lib/process_wave.sh <id>... : for every /tmp/out_<id>/patch<i>.diff not yet stored, confirm it in the scratch
# worktree (lib/confirm_seed.sh; package directory = first line of note<i>.md) and try it against the check.
cd /verif
for id in "$@"; do
  for pf in /tmp/out_$id/patch*.diff; do
    [ -f "$pf" ] || continue
    i=$(basename $pf .diff | sed 's/patch//')
    [ -d seeded/$id-$i ] && continue
    pkg=$(head -1 /tmp/out_$id/note$i.md | sed 's/[`* ]//g; s/^.*://; s/\/$//')
    [ -d /repo/$pkg ] || pkg=$(grep -o 'openapi3filter\|openapi3gen\|openapi2conv\|openapi2\|routers/gorillamux\|routers/legacy\|openapi3' /tmp/out_$id/note$i.md | head -1)
    r=$(lib/confirm_seed.sh $id $i $pkg "TestSeed${id}x$i" 2>&1 | grep "demo on\|stored\|apply" | tr '\n' ' ')
    echo "$id-$i [$pkg] $r"
    if [ -d seeded/$id-$i ]; then
      cp /tmp/out_$id/note$i.md seeded/$id-$i/note.md
      echo "   $(lib/try_patch.sh $id /verif/seeded/$id-$i/patch.diff 2>&1 | grep -v '^VIOLATION' | tr '\n' ' ' | cut -c1-200)"
    fi
  done
done
