#!/bin/sh
# usage: lib/try_patch.sh <property id> <patch file> : applies the patch to /repo, runs the quick check, reverts.
id=$1; patch=$2
git -C /repo apply "$patch" || { echo "patch does not apply"; exit 2; }
cd /verif && ./check $id quick > /tmp/try_$id.out 2>&1; rc=$?
git -C /repo checkout -- . ; git -C /repo clean -fdq
grep -c "^VIOLATION" /tmp/try_$id.out | sed "s/^/violations: /"; grep "^VIOLATION" /tmp/try_$id.out | head -3; tail -1 /tmp/try_$id.out | cut -c1-200
echo "exit=$rc"
