#!/bin/bash
# usage: lib/confirm_seed.sh <prop> <i> <pkg dir e.g. openapi3filter> <TestNameRegex>
# Confirms in the scratch worktree /tmp/wt_<prop>: demo passes on the clean tree, fails with the patch,
# existing tests of the touched packages still pass with the patch; then stores the seed under /verif/seeded/.
export GOFLAGS=-mod=mod GOPROXY=off GOSUMDB=off GOTOOLCHAIN=local
prop=$1; i=$2; pkg=$3; rx=$4
wt=/tmp/wt_$prop; out=/tmp/out_$prop
cd $wt || exit 2
git checkout -q -- . ; git clean -fdq
cp $out/demo${i}_test.go $wt/$pkg/zz_demo_test.go
go test -vet=off -count=1 -run "$rx" ./$pkg/ > /tmp/seed_clean.log 2>&1; clean=$?
git apply $out/patch$i.diff || { echo "patch does not apply"; exit 2; }
go test -vet=off -count=1 -run "$rx" ./$pkg/ > /tmp/seed_mut.log 2>&1; mut=$?
rm $wt/$pkg/zz_demo_test.go
go build ./... > /tmp/seed_build.log 2>&1; build=$?
go test -vet=off -count=1 ./openapi3/ ./openapi3filter/ ./openapi3gen/ ./openapi2/ ./openapi2conv/ ./routers/... 2>&1 | grep -v "^ok\|no test files" | grep "^--- FAIL\|^FAIL" | sort -u > /tmp/seed_suite.log
git checkout -q -- . ; git clean -fdq
echo "demo on clean tree exit=$clean (want 0); with patch exit=$mut (want !=0); build=$build"; echo "suite failures with patch (network-only ones expected):"; cat /tmp/seed_suite.log
if [ $clean -eq 0 ] && [ $mut -ne 0 ] && [ $build -eq 0 ]; then
  d=/verif/seeded/$prop-$i; mkdir -p $d
  cp $out/patch$i.diff $d/patch.diff; cp $out/demo${i}_test.go $d/demo_test.go
  echo "stored $d"
fi
